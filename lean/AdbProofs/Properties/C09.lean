import AdbProofs.Lemmas.SyncDevice
import AdbProofs.Lemmas.SyncExamples
/-
  C09 — list / stat.  list returns one entry per DENT record the device sent before DONE, with the
  exact name bytes, mode, size and mtime, in order; stat returns the exact (mode, size, mtime)
  triple of the device's STAT reply.  Both hold for any 32-bit field values, any names and any
  packetisation of the replies, and both close their stream afterwards.

  Conventions as in C08: `evs` are the events a call added; `Push.deliveredWrteData evs` is the
  FileSync byte stream handed over by them (payloads of the delivered device WRTE packets,
  concatenated — the packetisation is not visible in it); `SR.parse` / `SR.parseRec` / `SR.Recs` are
  the reference parser; `SR.dentRec id mode size mtime name` and `SR.statRec mode size mtime` are the
  device's encodings (`pack('<5I', …) + name`, `pack('<4I', …)`); `SR.listStream entries dn tail` is
  `DENT(entry)… DONE(dn) tail`; `SR.entryOf r` is the result entry `(name, mode, size, mtime)` of a
  record; `transmitted` / `delivered` are the messages handed to `_send` / the packets returned by
  the I/O manager, oldest first.
-/
namespace Adb
open Adb.SR

/-- The four receive formats have the sizes the model uses and are still the format strings of
    `constants.py` (the build breaks if a format changes). -/
theorem C09_formats :
    SyncFmt.list.size = 20 ∧ SyncFmt.stat.size = 16 ∧ SyncFmt.pull.size = 8 ∧ SyncFmt.push.size = 8 ∧
    Generated.FILESYNC_LIST_FORMAT = "<5I" ∧ Generated.FILESYNC_STAT_FORMAT = "<4I" ∧
    Generated.FILESYNC_PULL_FORMAT = "<2I" ∧ Generated.FILESYNC_PUSH_FORMAT = "<2I" ∧
    Generated.FILESYNC_LIST_FORMAT_SIZE = 4 * 5 ∧ Generated.FILESYNC_STAT_FORMAT_SIZE = 4 * 4 ∧
    Generated.FILESYNC_PULL_FORMAT_SIZE = 4 * 2 ∧ Generated.FILESYNC_PUSH_FORMAT_SIZE = 4 * 2 := by
  decide

/-- Any 32-bit field values survive: unpacking `n` little-endian words from the packing of `n`
    values below 2^32 gives back exactly those values (whatever follows). -/
theorem C09_field_roundtrip (n : Nat) (ws : List Nat) (rest : Bytes) (hn : ws.length = n)
    (h : ∀ v ∈ ws, v < 4294967296) :
    unpackWords n ((ws.map le32).flatten ++ rest) = ws := by
  subst hn
  exact unpackWords_pack ws rest h

/-- The reference parser inverts the device's encoding of a directory entry: any mode, size, mtime
    below 2^32 and any name (below 2^32 bytes, any byte values), whatever follows. -/
theorem C09_dent_roundtrip (mode size mtime : Nat) (name rest : Bytes)
    (h1 : mode < 4294967296) (h2 : size < 4294967296) (h3 : mtime < 4294967296) (h4 : name.length < 4294967296) :
    parseRec .list (dentRec .DENT mode size mtime name ++ rest)
      = some (⟨.DENT, [mode, size, mtime], some name⟩, rest) :=
  parseRec_eq_some.2 (parse_dentRec .DENT mode size mtime name rest (by decide) h1 h2 h3 h4)

/-- … and of a STAT reply. -/
theorem C09_stat_roundtrip (mode size mtime : Nat) (rest : Bytes)
    (h1 : mode < 4294967296) (h2 : size < 4294967296) (h3 : mtime < 4294967296) :
    parseRec .stat (statRec mode size mtime ++ rest) = some (⟨.STAT, [mode, size, mtime], none⟩, rest) :=
  parseRec_eq_some.2 (parse_statRec mode size mtime rest h1 h2 h3)

/-- `stat`, normal return.  The events split into the part before the request (`ePre`: guards and
    the OPEN/OKAY exchange, which hand over no FileSync byte on an idle device), the transfer (`eX`)
    and the close (`eCl`).  The FileSync stream of the transfer starts with a STAT record and the
    result is exactly the three words after its id; the callback is never involved. -/
theorem C09_stat_exact (devPath : Bytes) (tt rt : Timeout) (w w' : World) (v : Val) (evs : List TEv)
    (h : devStat devPath tt rt w = (.ok v, w')) (hev : w'.trace = evs ++ w.trace) (hl : lockTransport ∉ w.locks) :
    ∃ (t : Txn) (w0 w1 : World) (ePre eX eCl : List TEv) (mode size mtime : Nat) (rest : Bytes) (c : Pkt),
      openStream (ascii "sync:") tt rt none w0 = (.ok t, w1) ∧
      evs = eCl ++ eX ++ ePre ∧
      parseRec .stat (Push.deliveredWrteData eX) = some (⟨.STAT, [mode, size, mtime], none⟩, rest) ∧
      v = .stat mode size mtime ∧
      transmitted eCl = [clseMsg t] ∧ delivered eCl = [c] ∧ c.cmd = Cmd.CLSE ∧
      Push.progressCalls evs = [] ∧
      Push.deliveredWrteData eCl = [] ∧ (w.locks = [] → Push.deliveredWrteData ePre = []) := by
  obtain ⟨t, w0, w1, ePre, eX, eCl, mode, size, mtime, rest, c, h1, h2, h3, h4⟩ := devStat_exact h hev hl
  exact ⟨t, w0, w1, ePre, eX, eCl, mode, size, mtime, rest, c, h1, h2, parseRec_eq_some.2 h3, h4⟩

/-- `stat` from the device's side (idle device): if the WRTE payloads delivered during the call
    concatenate to the packing of ANY 32-bit `(mode, size, mtime)` (followed by anything), however
    they were cut into packets, the result is exactly that triple. -/
theorem C09_stat_exact_wire (devPath : Bytes) (tt rt : Timeout) (w w' : World) (v : Val) (evs : List TEv)
    (mode size mtime : Nat) (tail : Bytes)
    (h : devStat devPath tt rt w = (.ok v, w')) (hev : w'.trace = evs ++ w.trace) (hl : w.locks = [])
    (h1 : mode < 4294967296) (h2 : size < 4294967296) (h3 : mtime < 4294967296)
    (hstream : Push.deliveredWrteData evs = statRec mode size mtime ++ tail) :
    v = .stat mode size mtime := by
  obtain ⟨m, s, mt, rest, hp, hv⟩ := devStat_whole h hev hl
  rw [hstream, parse_statRec mode size mtime tail h1 h2 h3] at hp
  cases hp
  exact hv

/-- The loop of `list`, normal return: the reassembled stream is DENT records followed by one DONE
    record; every DENT record has exactly three header words between id and name length; the result
    is one entry per DENT record, in order, carrying the record's name bytes and those three words
    verbatim. -/
theorem C09_list_exact (t : Txn) (fuel : Nat) (fi : FsInfo) (files : List (Bytes × Nat × Nat × Nat))
    (w w' : World) (evs : List TEv)
    (h : listLoop t fuel fi [] w = (.ok files, w')) (hev : w'.trace = evs ++ w.trace) (hfmt : fi.fmt = .list) :
    ∃ (dents : List SyncRec) (done : SyncRec) (rest : Bytes),
      Recs .list (fi.recvBuf ++ Push.deliveredWrteData evs) (dents ++ [done]) rest ∧ done.id = SyncId.DONE ∧
      (∀ r ∈ dents, r.id = SyncId.DENT ∧ ∃ mode size mtime name, r = ⟨.DENT, [mode, size, mtime], some name⟩) ∧
      files = dents.map fun r => (r.data.getD [], r.fields.getD 0 0, r.fields.getD 1 0, r.fields.getD 2 0) := by
  obtain ⟨dents, done, rest, h1, h2, h3, h4⟩ := listLoop_ok h hev hfmt
  exact ⟨dents, done, rest, h1, h2, h3, by rw [h4]; rfl⟩

/-- `list` as a whole, normal return: as `C09_list_exact` for the FileSync stream of the transfer
    (`eX`), and then the stream is closed. -/
theorem C09_list (devPath : Bytes) (tt rt : Timeout) (w w' : World) (v : Val) (evs : List TEv)
    (h : devList devPath tt rt w = (.ok v, w')) (hev : w'.trace = evs ++ w.trace) (hl : lockTransport ∉ w.locks) :
    ∃ (t : Txn) (w0 w1 : World) (ePre eX eCl : List TEv) (dents : List SyncRec) (done : SyncRec) (rest : Bytes) (c : Pkt),
      openStream (ascii "sync:") tt rt none w0 = (.ok t, w1) ∧
      evs = eCl ++ eX ++ ePre ∧
      Recs .list (Push.deliveredWrteData eX) (dents ++ [done]) rest ∧ done.id = SyncId.DONE ∧
      (∀ r ∈ dents, r.id = SyncId.DENT ∧ ∃ mode size mtime name, r = ⟨.DENT, [mode, size, mtime], some name⟩) ∧
      v = .listing (dents.map entryOf) ∧
      transmitted eCl = [clseMsg t] ∧ delivered eCl = [c] ∧ c.cmd = Cmd.CLSE ∧
      Push.deliveredWrteData eCl = [] ∧ (w.locks = [] → Push.deliveredWrteData ePre = []) :=
  devList_exact h hev hl

/-- `list` from the device's side (idle device): for ANY entries (32-bit mode, size, mtime, any name
    bytes below 2^32 bytes), if the WRTE payloads delivered during the call concatenate to
    `DENT(entry)… DONE`, however they were cut into packets, the result is exactly the entries, in
    order: `(name, mode, size, mtime)` each. -/
theorem C09_list_exact_wire (devPath : Bytes) (tt rt : Timeout) (w w' : World) (v : Val) (evs : List TEv)
    (entries : List Entry) (dn : Entry) (tail : Bytes)
    (h : devList devPath tt rt w = (.ok v, w')) (hev : w'.trace = evs ++ w.trace) (hl : w.locks = [])
    (he : ∀ e ∈ entries, e.fits) (hdn : dn.fits)
    (hstream : Push.deliveredWrteData evs = listStream entries dn tail) :
    v = .listing entries := by
  obtain ⟨dents, done, rest, hrecs, hdone, hall, hv⟩ := devList_whole h hev hl
  rw [hstream] at hrecs
  obtain ⟨h1, -⟩ := list_wire hrecs hdone (fun r hr => (hall r hr).1) he hdn
  rw [hv, h1]

/-- Both close their stream afterwards: on a normal return of `stat` or `list`, a stream `t` was
    opened by the call, the LAST message the call handed to `_send` is the CLSE of that stream, and
    the last packet delivered to it is the device's CLSE. -/
theorem C09_closes_stream (devPath : Bytes) (tt rt : Timeout) (w w' : World) (v : Val) (evs : List TEv)
    (h : devStat devPath tt rt w = (.ok v, w') ∨ devList devPath tt rt w = (.ok v, w'))
    (hev : w'.trace = evs ++ w.trace) (hl : lockTransport ∉ w.locks) :
    ∃ (t : Txn) (w0 w1 : World) (eIn : List TEv) (c : Pkt),
      openStream (ascii "sync:") tt rt none w0 = (.ok t, w1) ∧
      transmitted evs = transmitted eIn ++ [clseMsg t] ∧ delivered evs = delivered eIn ++ [c] ∧ c.cmd = Cmd.CLSE := by
  rcases h with h | h
  · obtain ⟨t, w0, w1, ePre, eX, eCl, _, _, _, _, c, h1, h2, -, -, h3, h4, h5, -⟩ := devStat_exact h hev hl
    refine ⟨t, w0, w1, eX ++ ePre, c, h1, ?_, ?_, h5⟩
    · rw [h2, List.append_assoc, transmitted_append, h3]
    · rw [h2, List.append_assoc, delivered_append, h4]
  · obtain ⟨t, w0, w1, ePre, eX, eCl, _, _, _, c, h1, h2, -, -, -, -, h3, h4, h5, -⟩ := devList_exact h hev hl
    refine ⟨t, w0, w1, eX ++ ePre, c, h1, ?_, ?_, h5⟩
    · rw [h2, List.append_assoc, transmitted_append, h3]
    · rw [h2, List.append_assoc, delivered_append, h4]

/-! ### non-vacuity -/

/-- extreme field values survive -/
example : unpackWords 3 (([0, 4294967295, 2147483648].map le32).flatten ++ [7]) = [0, 4294967295, 2147483648] := by
  decide +kernel

/-- a whole `stat` whose 16-byte reply is cut after 5 bytes: normal return with the exact triple;
    the hypotheses of `C09_stat_exact_wire` hold; CLSE is sent last -/
example : (devStat sxPath (some 10) (some 10) wStat).1.toOption = some (.stat 33188 1234 1700000000) ∧
    wStat.locks = [] ∧
    Push.deliveredWrteData (devStat sxPath (some 10) (some 10) wStat).2.trace = statRec 33188 1234 1700000000 ++ [] ∧
    (transmitted (devStat sxPath (some 10) (some 10) wStat).2.trace).getLast? = some ⟨.CLSE, 1, 7, []⟩ := by
  decide +kernel

/-- a whole `list` of two entries (one with mtime 2^32-1) cut inside the first header and inside
    the second name: normal return with exactly the entries; the hypotheses of
    `C09_list_exact_wire` hold -/
example : (devList sxPath (some 10) (some 10) wList).1.toOption = some (.listing sxEntries) ∧
    wList.locks = [] ∧ (∀ e ∈ sxEntries, e.fits) ∧
    Push.deliveredWrteData (devList sxPath (some 10) (some 10) wList).2.trace = listStream sxEntries ([], 0, 0, 0) [] ∧
    (transmitted (devList sxPath (some 10) (some 10) wList).2.trace).getLast? = some ⟨.CLSE, 1, 7, []⟩ := by
  refine ⟨by decide +kernel, rfl, ?_, by decide +kernel, by decide +kernel⟩
  intro e he
  simp only [sxEntries, List.mem_cons, List.mem_nil_iff, or_false] at he
  rcases he with rfl | rfl <;> (unfold Entry.fits; decide)

end Adb
