import AdbProofs.Properties.C07SrcFlush
/-
  C10 (tie to the source, by proof) — the F5 repair is in the current source: while `_filesync_flush` waits for the OKAY of its own WRTE, a device WRTE that overtakes that OKAY
  (e.g. the sync FAIL of a push) is KEPT — appended to the transaction's receive buffer — not dropped; corollary of `C07_src_flush_loop_*` (both twins).
  Only property theorems live here.
-/
namespace Adb
open Py

/-- Both twins: handed a WRTE with payload `data` while waiting for the OKAY, the flush loop continues with the receive buffer `buf ++ data`. -/
theorem C10_src_flush_keeps_overtaking_write (cls : String) (fs : List (String × Py.Val)) (buf data : Bytes) (c0 d0 info : Py.Val)
    (hb : alookupS "recv_buffer" fs = some (.bytearray buf)) :
    Src.AdbDevice_filesync_flush_iter info c0 d0 (.obj cls fs) (.tuple [.bytes Cmd.WRTE.idBytes, .bytes data])
        = .ok (.tuple [.str "continue", .bytes Cmd.WRTE.idBytes, .bytes data, .obj cls (asetS "recv_buffer" (.bytearray (buf ++ data)) fs)])
      ∧ Src.AdbDeviceAsync_filesync_flush_iter info c0 d0 (.obj cls fs) (.tuple [.bytes Cmd.WRTE.idBytes, .bytes data])
        = .ok (.tuple [.str "continue", .bytes Cmd.WRTE.idBytes, .bytes data, .obj cls (asetS "recv_buffer" (.bytearray (buf ++ data)) fs)]) := by
  constructor
  · have h := (C07_src_flush_loop_sync cls fs buf data c0 d0 info .WRTE hb).2.1
    simpa using h
  · have h := (C07_src_flush_loop_async cls fs buf data c0 d0 info .WRTE hb).2.1
    simpa using h

end Adb
