import AdbProofs.Lemmas.Deliver
/-
  C04 — on every stream the host's packets obey the ADB stream protocol.
  Stated on the trace: `transmitted evs` are the messages handed to `_send` by the events a call
  adds, `delivered evs` the packets returned to the stream layer, `exchanged evs` both, interleaved
  in the order they happened.  All theorems hold in every world (any device behaviour, any fault).
-/
namespace Adb

/-- `_open` on an idle device: exactly one message is sent, an OPEN whose arg0 is the next local id
    from the allocator (non-zero, different from the previous one), arg1 = 0 and whose payload is
    the destination followed by a NUL; then exactly one packet is delivered, an OKAY addressed to
    that local id; the transaction returned carries that local id and, as remote id, the arg0 the
    device announced in this OKAY. -/
theorem C04_open_shape (dest : Bytes) (tt rt total : Timeout) (w w' : World) (t' : Txn)
    (hl : w.locks = []) (h : openStream dest tt rt total w = (.ok t', w')) :
    ∃ (evs : List TEv) (p : Pkt), w'.trace = evs ++ w.trace ∧
      transmitted evs = [⟨.OPEN, nextId w.localId, 0, dest ++ [0]⟩] ∧ delivered evs = [p] ∧
      exchanged evs = [.tx ⟨.OPEN, nextId w.localId, 0, dest ++ [0]⟩, .rx p] ∧
      p.cmd = .OKAY ∧ p.arg1 = nextId w.localId ∧
      t'.localId = some (nextId w.localId) ∧ t'.remoteId = some p.arg0 ∧
      nextId w.localId ≠ 0 ∧ nextId w.localId ≠ w.localId := by
  obtain ⟨p, hA, hc, h1, hr, hlid, _⟩ := openStream_dlv h hl
  obtain ⟨evs, htr, hd, hx, _, hex⟩ := hA.dt
  refine ⟨evs, p, htr, hx, hd, hex, hc, h1, hlid, hr, ?_, ?_⟩ <;> (unfold nextId; split <;> omega)

/-- `_open` that raises: nothing was delivered and at most the one OPEN was sent. -/
theorem C04_open_failed (dest : Bytes) (tt rt total : Timeout) (w w' : World) (e : Err)
    (hl : w.locks = []) (h : openStream dest tt rt total w = (.error e, w')) :
    ∃ evs : List TEv, w'.trace = evs ++ w.trace ∧ delivered evs = [] ∧
      (transmitted evs = [] ∨ transmitted evs = [⟨.OPEN, nextId w.localId, 0, dest ++ [0]⟩]) := by
  rcases openStream_dlv h hl with hA | hA
  · obtain ⟨evs, htr, hd, hx, _⟩ := hA.dt
    exact ⟨evs, htr, hd, Or.inl hx⟩
  · obtain ⟨evs, htr, hd, hx, _⟩ := hA.dt
    exact ⟨evs, htr, hd, Or.inr hx⟩

/-- `_read_until`, every outcome: at most one packet is delivered; if it is a WRTE exactly one OKAY
    carrying (local id, remote id) is sent, AFTER the delivery; otherwise nothing is sent. So each
    delivered device WRITE is acknowledged with exactly one OKAY and no OKAY is sent otherwise.
    On a normal return `(cmd, data)` are those of the delivered packet, an expected command. -/
theorem C04_one_okay_per_delivered_wrte (ex : List Cmd) (t : Txn) (w w' : World) (res : Except Err (Cmd × Bytes))
    (hl : lockTransport ∉ w.locks) (h : readUntil ex t w = (res, w')) :
    ∃ evs : List TEv, w'.trace = evs ++ w.trace ∧ (delivered evs).length ≤ 1 ∧ (∀ p ∈ delivered evs, p.cmd ∈ ex) ∧
      exchanged evs = (delivered evs).flatMap (fun p =>
        .rx p :: if p.cmd = .WRTE then [.tx ⟨.OKAY, t.localId.getD 0, t.remoteId.getD 0, []⟩] else []) ∧
      transmitted evs = ((delivered evs).filter (fun p => p.cmd = .WRTE)).map
        (fun _ => (⟨.OKAY, t.localId.getD 0, t.remoteId.getD 0, []⟩ : Msg)) ∧
      (∀ cmd data, res = .ok (cmd, data) → ∃ p, delivered evs = [p] ∧ p.cmd = cmd ∧ p.data = data ∧ cmd ∈ ex ∧
        transmitted evs = if cmd = .WRTE then [⟨.OKAY, t.localId.getD 0, t.remoteId.getD 0, []⟩] else []) := by
  have hres : ∀ cmd data, res = .ok (cmd, data) → ∃ p, Adds w w' (.rx p :: ackOf t p) [] ∧ p.cmd = cmd ∧ p.data = data ∧ cmd ∈ ex := by
    intro cmd data hr
    subst hr
    obtain ⟨p, hA, hc, hd, hex, _⟩ := readUntil_dlv h hl
    exact ⟨p, hA, hc, hd, hex⟩
  rcases readUntil_any h hl with hA | ⟨p, hex, _, hA⟩
  · obtain ⟨evs, htr, hd, hx, _, hxx⟩ := hA.dt
    refine ⟨evs, htr, by simp [hd], by simp [hd], by simp [hd, hxx], by simp [hd, hx], ?_⟩
    intro cmd data hr
    obtain ⟨p, hA', _⟩ := hres cmd data hr
    obtain ⟨evs', htr', hd', _⟩ := hA'.dt
    have : evs' = evs := List.append_cancel_right (htr'.symm.trans htr)
    subst this
    simp [hd] at hd'
  · obtain ⟨evs, htr, hd, hx, _, hxx⟩ := hA.dt
    have hd' : delivered evs = [p] := by rw [hd]; simp [ackOf]; split <;> rfl
    refine ⟨evs, htr, by simp [hd'], by simpa [hd'] using hex, ?_, ?_, ?_⟩
    · rw [hxx, hd']; simp [ackOf, okayMsg]
    · rw [hx, hd']
      by_cases hc : p.cmd = .WRTE <;> simp [ackOf, okayMsg, hc]
    · intro cmd data hr
      obtain ⟨q, hA', hqc, hqd, hcex⟩ := hres cmd data hr
      obtain ⟨evs', htr', hdq, _⟩ := hA'.dt
      have : evs' = evs := List.append_cancel_right (htr'.symm.trans htr)
      subst this
      have hqp : q = p := by
        have : [q] = [p] := by
          rw [← hd', hdq]; simp [ackOf]; split <;> rfl
        simpa using this
      subst hqp
      refine ⟨q, hd', hqc, hqd, hcex, ?_⟩
      rw [hx, ← hqc]
      by_cases hc : q.cmd = .WRTE <;> simp [ackOf, okayMsg, hc]

/-- `_read_until_close` returning normally: the deliveries are WRTE packets followed by exactly one
    CLSE; the host sent one OKAY per delivered WRTE — each right after its WRTE — and then exactly
    one CLSE answering the device's CLSE, which is the LAST thing sent; all with the stream's
    (local id, remote id). The items returned (and yielded, in this order) are the WRTE payloads. -/
theorem C04_close_answered_once (t : Txn) (w w' : World) (items : List Bytes)
    (hl : lockTransport ∉ w.locks) (h : readUntilClose t w = (.ok items, w')) :
    ∃ (evs : List TEv) (wrtes : List Pkt) (c : Pkt), w'.trace = evs ++ w.trace ∧
      delivered evs = wrtes ++ [c] ∧ c.cmd = .CLSE ∧ (∀ p ∈ wrtes, p.cmd = .WRTE) ∧
      items = wrtes.map (·.data) ∧ yieldedBy evs = items ∧
      transmitted evs = wrtes.map (fun _ => (⟨.OKAY, t.localId.getD 0, t.remoteId.getD 0, []⟩ : Msg))
        ++ [⟨.CLSE, t.localId.getD 0, t.remoteId.getD 0, []⟩] ∧
      exchanged evs = wrtes.flatMap (fun p => [Xfer.rx p, .tx ⟨.OKAY, t.localId.getD 0, t.remoteId.getD 0, []⟩])
        ++ [.rx c, .tx ⟨.CLSE, t.localId.getD 0, t.remoteId.getD 0, []⟩] := by
  obtain ⟨wrtes, rest, hw, _, hA, hitems, c, rfl, hcc⟩ := readUntilClose_dlv h hl
  obtain ⟨evs, htr, hd, hx, hy, hex⟩ := hA.dt
  simp only [List.reverse_nil, List.nil_append] at hitems
  refine ⟨evs, wrtes, c, htr, by rw [hd, rxs_served], hcc, hw, hitems, by rw [hy, hitems], ?_, ?_⟩
  · rw [hx, txs_served, List.flatMap_append, replyMsgs_wrtes t hw]
    simp [replyMsgs, hcc, okayMsg, clseMsg]
  · rw [hex, List.flatMap_append, served_wrtes t hw]
    simp [served, replyOf, hcc, okayMsg, clseMsg]

/-- `_read_until_close`, EVERY outcome (also when it raises half-way): everything the host sent is
    the reply to a packet delivered just before — one OKAY per WRTE, one CLSE per CLSE, nothing for
    nothing; the deliveries are WRTEs followed by at most one more packet, so a CLSE is delivered at
    most once and last: nothing is sent on the stream after the CLSE that answers it. -/
theorem C04_replies_only (t : Txn) (w w' : World) (res : Except Err (List Bytes))
    (hl : lockTransport ∉ w.locks) (h : readUntilClose t w = (res, w')) :
    ∃ (evs : List TEv) (wrtes rest : List Pkt), w'.trace = evs ++ w.trace ∧
      delivered evs = wrtes ++ rest ∧ (∀ p ∈ wrtes, p.cmd = .WRTE) ∧ rest.length ≤ 1 ∧
      (∀ p ∈ rest, p.cmd = .WRTE ∨ p.cmd = .CLSE) ∧
      transmitted evs = (delivered evs).flatMap (streamReply (t.localId.getD 0) (t.remoteId.getD 0)) ∧
      exchanged evs = (delivered evs).flatMap
        (fun p => .rx p :: (streamReply (t.localId.getD 0) (t.remoteId.getD 0) p).map .tx) ∧
      yieldedBy evs = wrtes.map (·.data) := by
  obtain ⟨wrtes, rest, hw, _, hA, hres⟩ := readUntilClose_dlv h hl
  obtain ⟨evs, htr, hd, hx, hy, hex⟩ := hA.dt
  have hrest : rest.length ≤ 1 ∧ ∀ p ∈ rest, p.cmd = .WRTE ∨ p.cmd = .CLSE := by
    cases res with
    | ok items =>
      obtain ⟨_, c, rfl, hcc⟩ := hres
      exact ⟨by simp, by simp [hcc]⟩
    | error e =>
      rcases hres with rfl | ⟨p, rfl, hp⟩
      · exact ⟨by simp, by simp⟩
      · exact ⟨by simp, by simpa using hp⟩
  have hrm : replyMsgs t = streamReply (t.localId.getD 0) (t.remoteId.getD 0) := by
    funext p; simp [replyMsgs, streamReply, okayMsg, clseMsg]
  have hd' : delivered evs = wrtes ++ rest := by rw [hd, rxs_served]
  refine ⟨evs, wrtes, rest, htr, hd', hw, hrest.1, hrest.2, ?_, ?_, hy⟩
  · rw [hx, txs_served, hd', hrm]
  · have hs : served t = fun p => Xfer.rx p :: (streamReply (t.localId.getD 0) (t.remoteId.getD 0) p).map Xfer.tx := by
      funext p
      rw [← hrm]
      unfold served replyOf replyMsgs
      split
      · rfl
      · split <;> rfl
    rw [hex, hd', hs]

/-- `_clse` (host-initiated close), every outcome: exactly one message is sent, a CLSE with the
    stream's (local id, remote id), and it is sent FIRST; on a normal return exactly one packet was
    delivered after it, the device's CLSE; when it raises nothing was delivered. -/
theorem C04_host_close_once (t : Txn) (w w' : World) (res : Except Err Unit)
    (hl : lockTransport ∉ w.locks) (h : clse t w = (res, w')) :
    ∃ evs : List TEv, w'.trace = evs ++ w.trace ∧
      transmitted evs = [⟨.CLSE, t.localId.getD 0, t.remoteId.getD 0, []⟩] ∧
      (res = .ok () → ∃ c, c.cmd = .CLSE ∧ delivered evs = [c] ∧
          exchanged evs = [.tx ⟨.CLSE, t.localId.getD 0, t.remoteId.getD 0, []⟩, .rx c]) ∧
      ((∃ e, res = .error e) → delivered evs = []) := by
  have hs := clse_dlv h hl
  cases res with
  | ok u =>
    obtain ⟨c, hA, hcc, _⟩ := hs
    obtain ⟨evs, htr, hd, hx, _, hex⟩ := hA.dt
    exact ⟨evs, htr, hx, fun _ => ⟨c, hcc, hd, hex⟩, by simp⟩
  | error e =>
    have hA : Adds w w' [.tx (clseMsg t)] [] := hs
    obtain ⟨evs, htr, hd, hx, _⟩ := hA.dt
    exact ⟨evs, htr, hx, by simp, fun _ => hd⟩

/-- Every message sent by `_okay`, `_clse`, `_read_until`, `_read_until_close` and
    `_filesync_flush` — whatever their outcome — carries `(arg0, arg1) = (local id, remote id)` of
    the transaction it was called with. -/
theorem C04_ids (t : Txn) (w w' : World) (hl : lockTransport ∉ w.locks) :
    (∀ res, okay t w = (res, w') →
      ∃ evs : List TEv, w'.trace = evs ++ w.trace ∧ ∀ m ∈ transmitted evs, m.arg0 = t.localId.getD 0 ∧ m.arg1 = t.remoteId.getD 0) ∧
    (∀ res, clse t w = (res, w') →
      ∃ evs : List TEv, w'.trace = evs ++ w.trace ∧ ∀ m ∈ transmitted evs, m.arg0 = t.localId.getD 0 ∧ m.arg1 = t.remoteId.getD 0) ∧
    (∀ ex res, readUntil ex t w = (res, w') →
      ∃ evs : List TEv, w'.trace = evs ++ w.trace ∧ ∀ m ∈ transmitted evs, m.arg0 = t.localId.getD 0 ∧ m.arg1 = t.remoteId.getD 0) ∧
    (∀ res, readUntilClose t w = (res, w') →
      ∃ evs : List TEv, w'.trace = evs ++ w.trace ∧ ∀ m ∈ transmitted evs, m.arg0 = t.localId.getD 0 ∧ m.arg1 = t.remoteId.getD 0) ∧
    (∀ fi res, fsFlush t fi w = (res, w') →
      ∃ evs : List TEv, w'.trace = evs ++ w.trace ∧ ∀ m ∈ transmitted evs, m.arg0 = t.localId.getD 0 ∧ m.arg1 = t.remoteId.getD 0) := by
  refine ⟨?_, ?_, ?_, ?_, ?_⟩
  · intro res h
    obtain ⟨evs, htr, _, hx, _⟩ := (okay_dlv h hl).dt
    exact ⟨evs, htr, by rw [hx]; simp [okayMsg]⟩
  · intro res h
    have hs := clse_dlv h hl
    cases res with
    | ok u =>
      obtain ⟨c, hA, _⟩ := hs
      obtain ⟨evs, htr, _, hx, _⟩ := hA.dt
      exact ⟨evs, htr, by rw [hx]; simp [clseMsg]⟩
    | error e =>
      have hA : Adds w w' [.tx (clseMsg t)] [] := hs
      obtain ⟨evs, htr, _, hx, _⟩ := hA.dt
      exact ⟨evs, htr, by rw [hx]; simp [clseMsg]⟩
  · intro ex res h
    rcases readUntil_any h hl with hA | ⟨p, _, _, hA⟩
    · obtain ⟨evs, htr, _, hx, _⟩ := hA.dt
      exact ⟨evs, htr, by rw [hx]; simp⟩
    · obtain ⟨evs, htr, _, hx, _⟩ := hA.dt
      refine ⟨evs, htr, ?_⟩
      rw [hx]
      unfold ackOf
      split <;> simp [okayMsg]
  · intro res h
    obtain ⟨wrtes, rest, _, _, hA, _⟩ := readUntilClose_dlv h hl
    obtain ⟨evs, htr, _, hx, _⟩ := hA.dt
    refine ⟨evs, htr, ?_⟩
    rw [hx, txs_served]
    intro m hm
    obtain ⟨p, _, hp⟩ := List.mem_flatMap.1 hm
    exact replyMsgs_ids t p m hp
  · intro fi res h
    obtain ⟨wrtes, rest, _, _, hA, _⟩ := fsFlush_dlv h hl
    obtain ⟨evs, htr, _, hx, _⟩ := hA.dt
    refine ⟨evs, htr, ?_⟩
    rw [hx]
    simp only [List.singleton_append, txs_cons_tx, txs_served, List.mem_cons]
    intro m hm
    rcases hm with rfl | hm
    · exact ⟨rfl, rfl⟩
    · obtain ⟨p, _, hp⟩ := List.mem_flatMap.1 hm
      exact replyMsgs_ids t p m hp

/-- Stop-and-wait: `_filesync_flush` hands its WRTE (the buffered records, with the stream's ids) to
    `_send` FIRST; what follows are device WRTEs delivered meanwhile, each acknowledged with one
    OKAY and appended to the receive buffer; it returns normally only after an OKAY packet has been
    delivered, which is the LAST event of the exchange. The host therefore cannot send a second WRTE
    before the device has acknowledged the previous one. When it raises, no OKAY was delivered. -/
theorem C04_stop_and_wait (t : Txn) (fi : FsInfo) (w w' : World) (hl : lockTransport ∉ w.locks) :
    (∀ fi', fsFlush t fi w = (.ok fi', w') →
      ∃ (evs : List TEv) (wrtes : List Pkt) (o : Pkt), w'.trace = evs ++ w.trace ∧
        o.cmd = .OKAY ∧ (∀ p ∈ wrtes, p.cmd = .WRTE) ∧ delivered evs = wrtes ++ [o] ∧
        transmitted evs = ⟨.WRTE, t.localId.getD 0, t.remoteId.getD 0, fi.sendBuf⟩ ::
          wrtes.map (fun _ => (⟨.OKAY, t.localId.getD 0, t.remoteId.getD 0, []⟩ : Msg)) ∧
        exchanged evs = .tx ⟨.WRTE, t.localId.getD 0, t.remoteId.getD 0, fi.sendBuf⟩ ::
          wrtes.flatMap (fun p => [Xfer.rx p, .tx ⟨.OKAY, t.localId.getD 0, t.remoteId.getD 0, []⟩]) ++ [.rx o] ∧
        fi'.sendBuf = [] ∧ fi'.recvBuf = fi.recvBuf ++ (wrtes.map (·.data)).flatten) ∧
    (∀ e, fsFlush t fi w = (.error e, w') →
      ∃ evs : List TEv, w'.trace = evs ++ w.trace ∧ ∀ p ∈ delivered evs, p.cmd = .WRTE) := by
  constructor
  · intro fi' h
    obtain ⟨wrtes, rest, hw, _, hA, ⟨o, rfl, hoc⟩, hsb, hrb⟩ := fsFlush_dlv h hl
    obtain ⟨evs, htr, hd, hx, _, hex⟩ := hA.dt
    refine ⟨evs, wrtes, o, htr, hoc, hw, ?_, ?_, ?_, hsb, hrb⟩
    · rw [hd, List.singleton_append, rxs_cons_tx, rxs_served]
    · rw [hx, List.singleton_append, txs_cons_tx, txs_served, List.flatMap_append, replyMsgs_wrtes t hw]
      simp [replyMsgs, hoc, wrteMsg, okayMsg]
    · rw [hex, List.flatMap_append, served_wrtes t hw]
      simp [served, replyOf, hoc, wrteMsg, okayMsg]
  · intro e h
    obtain ⟨wrtes, rest, hw, _, hA, hres⟩ := fsFlush_dlv h hl
    obtain ⟨evs, htr, hd, _⟩ := hA.dt
    refine ⟨evs, htr, ?_⟩
    rw [hd]
    simp only [List.singleton_append, rxs_cons_tx, rxs_served]
    intro p hp
    rcases List.mem_append.1 hp with hp | hp
    · exact hw p hp
    · rcases hres with rfl | ⟨q, rfl, hq⟩
      · simp at hp
      · simp only [List.mem_singleton] at hp; subst hp; exact hq

/-- A whole shell / exec_out / streaming_shell stream (`_streaming_command`) on an idle device,
    EVERY outcome: what the host sends is the OPEN, followed by exactly the replies to the packets
    delivered after the device's OKAY — one OKAY per WRTE, one CLSE for the CLSE — and every one of
    them carries (the local id of the OPEN, the remote id announced in the device's OKAY). -/
theorem C04_stream_conversation (svc cmd : Bytes) (tt rt total : Timeout) (w w' : World) (res : Except Err (List Bytes))
    (hl : w.locks = []) (h : streamingCommand svc cmd tt rt total w = (res, w')) :
    ∃ evs : List TEv, w'.trace = evs ++ w.trace ∧
      ((delivered evs = [] ∧ (transmitted evs = [] ∨ transmitted evs = [⟨.OPEN, nextId w.localId, 0, svc ++ [58] ++ cmd ++ [0]⟩])) ∨
       ∃ (okay : Pkt) (pkts : List Pkt), delivered evs = okay :: pkts ∧ okay.cmd = .OKAY ∧ okay.arg1 = nextId w.localId ∧
          transmitted evs = ⟨.OPEN, nextId w.localId, 0, svc ++ [58] ++ cmd ++ [0]⟩ ::
            pkts.flatMap (streamReply (nextId w.localId) okay.arg0) ∧
          exchanged evs = .tx ⟨.OPEN, nextId w.localId, 0, svc ++ [58] ++ cmd ++ [0]⟩ :: .rx okay ::
            pkts.flatMap (fun p => .rx p :: (streamReply (nextId w.localId) okay.arg0 p).map .tx)) := by
  obtain ⟨evs, htr, hcase⟩ := streamingCommand_any h hl
  refine ⟨evs, htr, ?_⟩
  rcases hcase with ⟨_, hd, _, hx⟩ | ⟨okay, wrtes, rest, hd, hoc, ho1, _, _, _, _, _, _, hx, hex⟩
  · exact Or.inl ⟨hd, hx⟩
  · exact Or.inr ⟨okay, wrtes ++ rest, hd, hoc, ho1, hx, hex⟩

/-! Non-vacuity, evaluated by the kernel.  `demoWorld pkts` is a connected idle device whose peer sends
    `pkts`; `demoShellWorld` (see C01) answers an OPEN; `demoTxn` is the stream (local 1, remote 77). -/

/-- `_open` returns normally on an idle device (hypotheses of `C04_open_shape`) -/
example : demoShellWorld.locks = [] ∧
    (openStream (ascii "shell:ls") none (some 10240) none demoShellWorld).1
      = .ok ⟨some 1, some 77, some 10240, some 10240, none⟩ :=
  ⟨rfl, ok_of_toOption (by decide +kernel)⟩

/-- the conversation of a complete `shell` call -/
example :
    exchanged (service (ascii "shell") [108, 115] none (some 10240) none false demoShellWorld).2.trace =
      [.tx ⟨.OPEN, 1, 0, ascii "shell:ls" ++ [0]⟩, .rx ⟨.OKAY, 77, 1, []⟩,
       .rx ⟨.WRTE, 77, 1, [0xE2, 0x82]⟩, .tx ⟨.OKAY, 1, 77, []⟩,
       .rx ⟨.WRTE, 77, 1, [0xAC, 0x21]⟩, .tx ⟨.OKAY, 1, 77, []⟩,
       .rx ⟨.CLSE, 77, 1, []⟩, .tx ⟨.CLSE, 1, 77, []⟩] := by decide +kernel

/-- `_read_until` delivering a WRTE: acknowledged once, after the delivery -/
example : lockTransport ∉ (demoWorld [⟨.WRTE, 77, 1, [104]⟩]).locks ∧
    (readUntil [.CLSE, .WRTE] demoTxn (demoWorld [⟨.WRTE, 77, 1, [104]⟩])).1 = .ok (.WRTE, [104]) ∧
    exchanged (readUntil [.CLSE, .WRTE] demoTxn (demoWorld [⟨.WRTE, 77, 1, [104]⟩])).2.trace
      = [.rx ⟨.WRTE, 77, 1, [104]⟩, .tx ⟨.OKAY, 1, 77, []⟩] :=
  ⟨by decide, ok_of_toOption (by decide +kernel), by decide +kernel⟩

/-- `_read_until_close`: a WRTE, an unexpected OKAY (dropped, no reply), a WRTE with the legacy zero
    remote id, then the CLSE -/
example :
    (readUntilClose demoTxn (demoWorld [⟨.WRTE, 77, 1, [104]⟩, ⟨.OKAY, 77, 1, []⟩, ⟨.WRTE, 0, 1, [105]⟩, ⟨.CLSE, 77, 1, []⟩])).1
      = .ok [[104], [105]] ∧
    exchanged (readUntilClose demoTxn
        (demoWorld [⟨.WRTE, 77, 1, [104]⟩, ⟨.OKAY, 77, 1, []⟩, ⟨.WRTE, 0, 1, [105]⟩, ⟨.CLSE, 77, 1, []⟩])).2.trace
      = [.rx ⟨.WRTE, 77, 1, [104]⟩, .tx ⟨.OKAY, 1, 77, []⟩, .rx ⟨.WRTE, 0, 1, [105]⟩, .tx ⟨.OKAY, 1, 77, []⟩,
         .rx ⟨.CLSE, 77, 1, []⟩, .tx ⟨.CLSE, 1, 77, []⟩] :=
  ⟨ok_of_toOption (by decide +kernel), by decide +kernel⟩

/-- host-initiated close -/
example :
    (clse demoTxn (demoWorld [⟨.CLSE, 77, 1, []⟩])).1 = .ok () ∧
    exchanged (clse demoTxn (demoWorld [⟨.CLSE, 77, 1, []⟩])).2.trace
      = [.tx ⟨.CLSE, 1, 77, []⟩, .rx ⟨.CLSE, 77, 1, []⟩] :=
  ⟨ok_of_toOption (by decide +kernel), by decide +kernel⟩

/-- `_filesync_flush`: WRTE out, a device WRTE acknowledged and buffered meanwhile, then the OKAY -/
example :
    ((fsFlush demoTxn { fmt := .stat, maxdata := 4096, sendBuf := [1, 2, 3] }
        (demoWorld [⟨.WRTE, 77, 1, [9]⟩, ⟨.OKAY, 77, 1, []⟩])).1.toOption.map (fun fi => (fi.sendBuf, fi.recvBuf)))
      = some ([], [9]) ∧
    exchanged (fsFlush demoTxn { fmt := .stat, maxdata := 4096, sendBuf := [1, 2, 3] }
        (demoWorld [⟨.WRTE, 77, 1, [9]⟩, ⟨.OKAY, 77, 1, []⟩])).2.trace
      = [.tx ⟨.WRTE, 1, 77, [1, 2, 3]⟩, .rx ⟨.WRTE, 77, 1, [9]⟩, .tx ⟨.OKAY, 1, 77, []⟩, .rx ⟨.OKAY, 77, 1, []⟩] :=
  ⟨by decide +kernel, by decide +kernel⟩

end Adb
