import AdbModel
/-
  C16 (structure of the twins, from the source) — `Generated.twinIdentical` is computed by harness/gen.py on every run: the methods of
  adb_device.py / adb_device_async.py whose bodies are IDENTICAL once `async`/`await`/`Async` are erased from the async module.
  The theorem pins the set of core methods that must be in it: the whole I/O manager (read, send, connect, close, the byte/packet readers, the
  write loop) and the stream / FileSync helpers of the device class. "A correction made to one implementation but not the other is a violation"
  (the property's own words) therefore breaks this proof obligation at once for these methods; the public operations, which legitimately differ
  (generators vs async generators, aiofiles, class names in messages), are compared by the correspondence of both twins instead.
  Only property theorems live here.
-/
namespace Adb

/-- the methods that are line-for-line the same in both twins (after await-erasure) on the tree the model was written against -/
def twinCore : List String :=
  ["_AdbIOManager.__init__", "_AdbIOManager.close", "_AdbIOManager.connect", "_AdbIOManager.read", "_AdbIOManager.send",
   "_AdbIOManager._read_bytes_from_device", "_AdbIOManager._read_expected_packet_from_device", "_AdbIOManager._read_packet_from_device",
   "_AdbIOManager._send", "_AdbIOManager._write_all",
   "AdbDevice._open", "AdbDevice._okay", "AdbDevice._clse", "AdbDevice._read_until", "AdbDevice._read_until_close",
   "AdbDevice._filesync_flush", "AdbDevice._filesync_read_buffered", "AdbDevice._filesync_read_until", "AdbDevice._filesync_send",
   "AdbDevice._pull", "AdbDevice._get_transport_timeout_s", "AdbDevice.available", "AdbDevice.close", "AdbDevice.max_chunk_size"]

/-- Every core method is, in the CURRENT source, identical in `AdbDevice`/`_AdbIOManager` and `AdbDeviceAsync`/`_AdbIOManagerAsync` up to
    `async`/`await`. -/
theorem C16_twin_core_identical : ∀ m ∈ twinCore, m ∈ Generated.twinIdentical := by decide

/-- The only methods present in one twin and not the other are the USB constructor (there is no async USB transport) and the `_AsyncBytesIO`
    wrapper methods of the async module. -/
theorem C16_twin_only_one :
    Generated.twinOnlyOne = ["AdbDeviceUsb.__init__", "_BytesIO.__init__", "_BytesIO.read", "_BytesIO.size", "_BytesIO.write"] := by decide

end Adb
