import AdbProofs.Lemmas.EndToEnd
/-
  The executable specification function the driver evaluates on the implementation's observed runs
  (`AdbModel/Spec.lean`) IS the function the property theorems are stated against.
-/
namespace Adb

theorem C01_spec_mine (l r : Nat) (p : Pkt) : Spec.mine l r p = E2E.mine l r p := rfl

theorem C01_spec_closeItems (l r : Nat) (ps : List Pkt) : Spec.closeItems l r ps = E2E.closeItems l r ps := by
  induction ps with
  | nil => rfl
  | cons p ps ih =>
    cases h : E2E.closeItems l r ps <;> simp [Spec.closeItems, E2E.closeItems, ih, h, C01_spec_mine]

/-- the C01 oracle is the reference semantics of `C01_end_to_end_output` -/
theorem C01_spec_streamItems (l : Nat) (ps : List Pkt) : Spec.streamItems l ps = E2E.streamItems l ps := by
  induction ps with
  | nil => rfl
  | cons p ps ih =>
    simp only [Spec.streamItems, E2E.streamItems, E2E.isOkayFor, ih, C01_spec_closeItems]
    by_cases h : (p.arg1 == l && p.cmd == Cmd.OKAY) = true <;> simp [h]


end Adb
