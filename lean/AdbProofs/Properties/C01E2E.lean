import AdbProofs.Lemmas.EndToEnd
import AdbProofs.Properties.C01
/-
  C01, end to end — the bridge between the wire layer (C03: packets are reconstructed exactly from the device's
  BYTE STREAM `World.inboundRest`, whatever the fragmentation) and the stream layer (C01/C04: the result is a
  function of the packets DELIVERED, read off the trace).  Here: the packets delivered are exactly the
  device's packets for this stream, in the order the device sent them, and the result of shell / exec_out is
  exactly the concatenation of what the device wrote on this stream between its OKAY and its CLSE — stated
  about the device's byte stream, for every fragmentation / gating / timing / fault script.

  Vocabulary (AdbProofs/Lemmas/EndToEnd.lean, namespace `Adb.E2E`):
  * `IsRaw p raw`        `raw` = 24-byte header ++ payload that `_read_packet_from_device` reads as `p`
  * `Frames ps bs tl`    the byte stream `bs` is frames of the packets `ps`, in order, followed by `tl`
  * `Readable tl`        `tl` starts with a frame the library would accept
  * `Fate`               what `read` did with a packet it read off the wire: `delivered` / `dropped` / `parked`
  * `wireFates evs`      the (fate, packet) pairs of the events `deliver` / `drop` / `park` / `lost`, oldest first
  * `fate ex t az p`     the fate `args_match` and `cmd ∈ expected` assign to `p`
  * `Reads F w w'`       `w'` arises from `w` by reading exactly the packets of `F` off the wire with these fates
                         (stream shortened by their frames, store updated by `storeStep`, wire events = `F`)
  * `Clean t az s`       the packet store `s` holds no pending packet that `read(…, t, az)` would take
  * `mine l r p`         `p.arg1 ∈ {l, 0}` and `p.arg0 ∈ {r, 0}`   (`args_match(…, allow_zeros=True)`)
  * `isOkayFor l p`      `p.arg1 = l` and `p.cmd = OKAY`
  * `Conversation l ps pre okay mid c rest`
                         `ps = pre ++ okay :: mid ++ c :: rest`, `okay` the FIRST OKAY for `l` in `ps`, `c` the FIRST
                         CLSE with the ids of the stream `(l, okay.arg0)` after it
  * `convItems l okay mid`   payloads of the WRTEs of `mid` with the stream's ids, in order
  * `convFates l pre okay mid c`  `pre`: parked (`arg1 ≠ l`) or dropped; `okay`: delivered; `mid`: delivered (this
                         stream's WRTE), dropped (this stream's ids, other command), parked (foreign); `c`: delivered
  * `streamItems l ps`   the same as an executable function: `some (items, rest)` or `none` (no complete conversation)
  * `NoEarlyZero l ps`   no packet with `arg1 = 0` precedes the OKAY for `l`
-/
namespace Adb

/-- One iteration of the `while True:` body of `_AdbIOManager.read` with an ARBITRARY packet store, returning
    normally: after discarding the unexpected parked packets `us` of this transaction, EITHER the result is an
    expected packet that was parked in the store (`E2E.Source.store`: nothing is consumed from the device
    stream), OR the store holds nothing more for the transaction and exactly one frame — 24-byte header +
    payload as in `C03_readPacket_exact` — is consumed from the device stream, reading as a packet `p` that is
    delivered / dropped / parked-or-lost according to `t.argsMatch p.arg0 p.arg1 az` and `p.cmd ∈ ex`
    (`E2E.Source.wire`, with the exact event, store update and result). -/
theorem C01_readIter_source (ex : List Cmd) (t : Txn) (az : Bool) (w w' : World) (r : Option Pkt)
    (h : readIter ex t az w = (.ok r, w')) :
    ∃ us, (∀ u ∈ us, u ∈ E2E.storePkts w.store ∧ t.accepts az u = true ∧ u.cmd ∉ ex) ∧ E2E.Source ex t az w r w' us :=
  E2E_readIter_source h

/-- `_AdbIOManager.read(ex, t, az)` returning `p` from an EMPTY packet store, the device's remaining byte stream
    being the concatenation of the encodings of the packets `ps` followed by arbitrary bytes `tail`: the packets
    read off the wire are a prefix `qs ++ [p]` of `ps`; `p` is the FIRST packet of `ps` whose ids match and whose
    command is expected; every earlier packet was parked (ids do not match; lost if a CLSE without store entry)
    or dropped (ids match, command unexpected) — these are the wire events recorded, in order; the store is
    updated packet by packet and again holds nothing for the transaction; the device stream continues with the
    encodings of `rest`.  (Only alternative: no packet of `ps` is deliverable and the read went on into `tail`,
    which then starts with a further readable frame.) -/
theorem C01_ioRead_from_empty_store (ex : List Cmd) (t : Txn) (az : Bool) (l : Nat) (w w' : World) (p : Pkt)
    (ps : List Pkt) (tail : Bytes) (hl : t.localId = some l) (hs : w.store = [])
    (hstream : w.inboundRest = (ps.map Pkt.encode).flatten ++ tail) (hpk : ∀ q ∈ ps, q.toMsg.Packable)
    (h : ioRead ex t az w = (.ok p, w')) :
    (∃ qs rest, ps = qs ++ p :: rest ∧
        (∀ q ∈ qs, ¬ (t.argsMatch q.arg0 q.arg1 az = true ∧ q.cmd ∈ ex)) ∧
        t.argsMatch p.arg0 p.arg1 az = true ∧ p.cmd ∈ ex ∧
        w'.inboundRest = (rest.map Pkt.encode).flatten ++ tail ∧
        w'.store = (E2E.classify ex t az (qs ++ [p])).foldl E2E.storeStep [] ∧ E2E.Clean t az w'.store ∧
        ∃ evs, w'.trace = evs ++ w.trace ∧ E2E.wireFates evs = E2E.classify ex t az (qs ++ [p]) ∧
          E2E.wirePkts evs = qs ++ [p] ∧ delivered evs = [p]) ∨
    ((∀ q ∈ ps, ¬ (t.argsMatch q.arg0 q.arg1 az = true ∧ q.cmd ∈ ex)) ∧ E2E.Readable tail) := by
  have hc : E2E.Clean t az w.store := by rw [hs]; exact E2E.Clean.empty t az
  have hf : E2E.Frames ps w.inboundRest tail := by rw [hstream]; exact E2E.Frames_encode tail hpk
  have hnd : ∀ q, E2E.fate ex t az q ≠ .delivered → ¬ (t.argsMatch q.arg0 q.arg1 az = true ∧ q.cmd ∈ ex) := by
    intro q hq hh
    exact hq (E2E.fate_delivered_iff.2 ⟨hh.1, by simpa using hh.2⟩)
  rcases E2E_ioRead_from_empty_store hl hc hf h with ⟨qs, rest, rfl, hqs, hp, -, hR, hc'⟩ | ⟨hno, hread⟩
  · obtain ⟨hpm, hpc⟩ := E2E.fate_delivered_iff.1 hp
    obtain ⟨evs, htr, hfates⟩ := hR.trace
    refine Or.inl ⟨qs, rest, rfl, fun q hq => hnd q (hqs q hq), hpm, by simpa using hpc, ?_, ?_, hc', evs, htr, hfates, ?_, ?_⟩
    · have hfr := hR.stream
      rw [E2E.classify_pkts] at hfr
      refine E2E.Frames.encode_rest (qs := qs ++ [p]) (rest := rest) ?_ (by rw [hstream]; simp) hfr
      intro q hq
      exact hpk q (by simp only [List.mem_append, List.mem_singleton] at hq; rcases hq with hq | rfl <;> simp [*])
    · rw [hR.store, hs]
    · rw [E2E.wirePkts, hfates, E2E.classify_pkts]
    · obtain ⟨evs', htr', -, hd, -⟩ := ioRead_dt h
      have : evs' = evs := List.append_cancel_right (htr'.symm.trans htr)
      rw [← this]; exact (hd p rfl).1
  · exact Or.inr ⟨fun q hq => hnd q (hno q hq), hread⟩

/-- `_read_until_close` on the open stream `(l, r)` returning normally, the packet store holding nothing for the
    stream (e.g. empty), the device's remaining byte stream being the encodings of `ps` followed by `tail`:
    `ps = mid ++ c :: rest` where `c` is the FIRST CLSE carrying the stream's ids; the items are EXACTLY the payloads
    of the WRTEs of `mid` carrying the stream's ids, in order; the packets read off the wire are exactly
    `mid ++ [c]` — the foreign ones parked, this stream's non-WRTE ones dropped — and the device stream
    continues with the encodings of `rest`.  (Only alternative: `ps` contains no CLSE of this stream and reading
    went on into `tail`.) -/
theorem C01_readUntilClose_end_to_end (t : Txn) (l r : Nat) (w w' : World) (items : List Bytes) (ps : List Pkt)
    (tail : Bytes) (hl : t.localId = some l) (hr : t.remoteId = some r) (hc : E2E.Clean t true w.store)
    (hstream : w.inboundRest = (ps.map Pkt.encode).flatten ++ tail) (hpk : ∀ q ∈ ps, q.toMsg.Packable)
    (h : readUntilClose t w = (.ok items, w')) :
    (∃ mid c rest, ps = mid ++ c :: rest ∧
        (∀ q ∈ mid, ¬ (E2E.mine l r q = true ∧ q.cmd = .CLSE)) ∧ E2E.mine l r c = true ∧ c.cmd = .CLSE ∧
        items = (mid.filter (fun q => E2E.mine l r q && q.cmd == .WRTE)).map (·.data) ∧
        w'.inboundRest = (rest.map Pkt.encode).flatten ++ tail ∧
        ∃ evs, w'.trace = evs ++ w.trace ∧
          E2E.wireFates evs = (mid ++ [c]).map (fun p => (E2E.fateStream l r p, p))) ∨
    (E2E.closeItems l r ps = none ∧ E2E.Readable tail) := by
  have hf : E2E.Frames ps w.inboundRest tail := by rw [hstream]; exact E2E.Frames_encode tail hpk
  rcases E2E.readUntilClose_frames hl hr hc hf h with ⟨mid, c, rest, rfl, hmid, hcm, hcc, hitems, -, hR⟩ | hno
  · obtain ⟨evs, htr, hfates⟩ := hR.trace
    refine Or.inl ⟨mid, c, rest, rfl, hmid, hcm, hcc, hitems, ?_, evs, htr, hfates⟩
    have hfr := hR.stream
    simp only [List.map_map, Function.comp_def, List.map_id'] at hfr
    refine E2E.Frames.encode_rest (qs := mid ++ [c]) (rest := rest) ?_ (by rw [hstream]; simp) hfr
    intro q hq
    exact hpk q (by simp only [List.mem_append, List.mem_singleton] at hq; rcases hq with hq | rfl <;> simp [*])
  · exact Or.inr hno

/-- END TO END, decode=False.  Assume the packet store is empty, the open connection's remaining device byte
    stream is the concatenation of the encodings of the packets `ps` followed by bytes `tail` that do not start
    with a further readable frame (nothing, a truncated or corrupt frame, fewer than 24 bytes:
    `E2E.not_readable_of_short`), and no packet with `arg1 = 0` precedes the OKAY for the new local id
    `l = nextId w.localId` (`E2E.NoEarlyZero`; implied by "no packet of `ps` has `arg1 = 0`",
    `E2E.NoEarlyZero.of_nonzero`; the hypothesis cannot be dropped, see the example below).  If `_service`
    (shell / exec_out) returns `v`, then — for EVERY segmentation, gating, read fragmentation, timing and fault
    script — `ps` contains the conversation `pre ++ okay :: mid ++ c :: rest`: `okay` the first OKAY for `l`, `c`
    the first CLSE after it with the ids `(okay.arg0 or 0, l or 0)`, and
    * `v` is EXACTLY the concatenation of the payloads of the WRTE packets of `mid` with these ids — what the
      device wrote on this stream between its OKAY and its CLSE; nothing of any other stream, nothing before
      the OKAY, nothing after the CLSE;
    * the packets read off the wire are exactly `pre ++ okay :: mid ++ [c]` (`wirePkts`), with the fates
      `E2E.convFates`: foreign packets parked in the store, this stream's other commands dropped;
    * what was DELIVERED (the stream-layer reading of C01/C04) is exactly `okay`, those WRTEs, `c`;
    * the device stream continues with the encodings of `rest` (then `tail`): nothing beyond the CLSE is consumed. -/
theorem C01_end_to_end (svc cmd : Bytes) (tt rt total : Timeout) (w w' : World) (v : Val) (ps : List Pkt)
    (tail : Bytes) (hs : w.store = [])
    (hstream : w.inboundRest = (ps.map Pkt.encode).flatten ++ tail) (hpk : ∀ p ∈ ps, p.toMsg.Packable)
    (htail : ¬ E2E.Readable tail) (hz : E2E.NoEarlyZero (nextId w.localId) ps)
    (h : service svc cmd tt rt total false w = (.ok v, w')) :
    ∃ pre okay mid c rest, E2E.Conversation (nextId w.localId) ps pre okay mid c rest ∧
      v = .bytes ((mid.filter (fun q => E2E.mine (nextId w.localId) okay.arg0 q && q.cmd == .WRTE)).map (·.data)).flatten ∧
      w'.inboundRest = (rest.map Pkt.encode).flatten ++ tail ∧
      w'.store = (E2E.convFates (nextId w.localId) pre okay mid c).foldl E2E.storeStep [] ∧
      ∃ evs, w'.trace = evs ++ w.trace ∧
        E2E.wireFates evs = E2E.convFates (nextId w.localId) pre okay mid c ∧
        E2E.wirePkts evs = pre ++ okay :: (mid ++ [c]) ∧
        delivered evs = okay :: mid.filter (fun q => E2E.mine (nextId w.localId) okay.arg0 q && q.cmd == .WRTE) ++ [c] := by
  rcases E2E.service_encode hs hstream hpk hz h with ⟨pre, okay, mid, c, rest, hconv, hv, hrest, hR⟩ | ⟨-, hread⟩
  · obtain ⟨hst, evs, htr, h1, h2, h3⟩ := hconv.trace hR
    exact ⟨pre, okay, mid, c, rest, hconv, hv, hrest, by rw [hst, hs], evs, htr, h1, h2, h3⟩
  · exact absurd hread htail

/-- END TO END, decode=True: the same, the value being the backslash-escaping UTF-8 decoding of that concatenation. -/
theorem C01_end_to_end_decoded (svc cmd : Bytes) (tt rt total : Timeout) (w w' : World) (v : Val) (ps : List Pkt)
    (tail : Bytes) (hs : w.store = [])
    (hstream : w.inboundRest = (ps.map Pkt.encode).flatten ++ tail) (hpk : ∀ p ∈ ps, p.toMsg.Packable)
    (htail : ¬ E2E.Readable tail) (hz : E2E.NoEarlyZero (nextId w.localId) ps)
    (h : service svc cmd tt rt total true w = (.ok v, w')) :
    ∃ pre okay mid c rest, E2E.Conversation (nextId w.localId) ps pre okay mid c rest ∧
      v = .str (Utf8.decodeBS
        ((mid.filter (fun q => E2E.mine (nextId w.localId) okay.arg0 q && q.cmd == .WRTE)).map (·.data)).flatten) ∧
      w'.inboundRest = (rest.map Pkt.encode).flatten ++ tail ∧
      ∃ evs, w'.trace = evs ++ w.trace ∧
        E2E.wireFates evs = E2E.convFates (nextId w.localId) pre okay mid c ∧
        delivered evs = okay :: mid.filter (fun q => E2E.mine (nextId w.localId) okay.arg0 q && q.cmd == .WRTE) ++ [c] := by
  rcases E2E.service_encode hs hstream hpk hz h with ⟨pre, okay, mid, c, rest, hconv, hv, hrest, hR⟩ | ⟨-, hread⟩
  · obtain ⟨-, evs, htr, h1, -, h3⟩ := hconv.trace hR
    exact ⟨pre, okay, mid, c, rest, hconv, hv, hrest, evs, htr, h1, h3⟩
  · exact absurd hread htail

/-- END TO END for streaming_shell (fully consumed): one item per WRTE payload of the conversation, in order. -/
theorem C01_end_to_end_streaming (svc cmd : Bytes) (tt rt : Timeout) (decode : Bool) (w w' : World) (v : Val)
    (ps : List Pkt) (tail : Bytes) (hs : w.store = [])
    (hstream : w.inboundRest = (ps.map Pkt.encode).flatten ++ tail) (hpk : ∀ p ∈ ps, p.toMsg.Packable)
    (htail : ¬ E2E.Readable tail) (hz : E2E.NoEarlyZero (nextId w.localId) ps)
    (h : streamingService svc cmd tt rt decode w = (.ok v, w')) :
    ∃ pre okay mid c rest, E2E.Conversation (nextId w.localId) ps pre okay mid c rest ∧
      v = .items ((mid.filter (fun q => E2E.mine (nextId w.localId) okay.arg0 q && q.cmd == .WRTE)).map
            fun q => if decode then Item.str (Utf8.decodeBS q.data) else Item.bytes q.data) ∧
      w'.inboundRest = (rest.map Pkt.encode).flatten ++ tail ∧
      ∃ evs, w'.trace = evs ++ w.trace ∧ E2E.wireFates evs = E2E.convFates (nextId w.localId) pre okay mid c := by
  rcases E2E.streamingService_encode hs hstream hpk hz h with ⟨pre, okay, mid, c, rest, hconv, hv, hrest, hR⟩ | ⟨-, hread⟩
  · obtain ⟨-, evs, htr, h1, -, -⟩ := hconv.trace hR
    refine ⟨pre, okay, mid, c, rest, hconv, ?_, hrest, evs, htr, h1⟩
    rw [hv, E2E.convItems, List.map_map]
    rfl
  · exact absurd hread htail

/-- END TO END as a function of the device's packets, for an ARBITRARY continuation `tail` of the stream: if the
    reference semantics `E2E.streamItems` finds the complete conversation in `ps` — items `items`, packets
    `rest` left over — then whenever `_service` returns, its value is the (decoded) concatenation of `items` and
    the device stream continues with the encodings of `rest`, then `tail`. -/
theorem C01_end_to_end_output (svc cmd : Bytes) (tt rt total : Timeout) (decode : Bool) (w w' : World) (v : Val)
    (ps : List Pkt) (tail : Bytes) (items : List Bytes) (rest : List Pkt) (hs : w.store = [])
    (hstream : w.inboundRest = (ps.map Pkt.encode).flatten ++ tail) (hpk : ∀ p ∈ ps, p.toMsg.Packable)
    (hz : E2E.NoEarlyZero (nextId w.localId) ps)
    (hspec : E2E.streamItems (nextId w.localId) ps = some (items, rest))
    (h : service svc cmd tt rt total decode w = (.ok v, w')) :
    v = (if decode then .str (Utf8.decodeBS items.flatten) else .bytes items.flatten) ∧
      w'.inboundRest = (rest.map Pkt.encode).flatten ++ tail := by
  rcases E2E.service_encode hs hstream hpk hz h with ⟨pre, okay, mid, c, rest', hconv, hv, hrest, -⟩ | ⟨hnone, -⟩
  · rw [hconv.streamItems] at hspec
    simp only [Option.some.injEq, Prod.mk.injEq] at hspec
    obtain ⟨rfl, rfl⟩ := hspec
    exact ⟨hv, hrest⟩
  · rw [hnone] at hspec; cases hspec

/-- the reference semantics is the conversation: `streamItems` terminates exactly when `ps` contains the
    conversation, and then yields its items and its rest -/
theorem C01_streamItems_iff (l : Nat) (ps : List Pkt) (items : List Bytes) (rest : List Pkt) :
    E2E.streamItems l ps = some (items, rest) ↔
      ∃ pre okay mid c, E2E.Conversation l ps pre okay mid c rest ∧ items = E2E.convItems l okay mid := by
  constructor
  · exact E2E.streamItems_some
  · rintro ⟨pre, okay, mid, c, hconv, rfl⟩
    exact hconv.streamItems

/-! ### Non-vacuity -/

/-! `E2E.demoShellPkts` are the packets the peer of `demoShellWorld` sends: OKAY(77,1), a foreign WRTE(5,9,"x"),
    "€!" split over two WRTEs(77,1), CLSE(77,1). -/

/-- non-vacuity of `C01_readIter_source`, store case: a WRTE of the stream (77, 1) parked in the store is returned by
    one iteration without touching the device stream — and, wire case: with an empty store the iteration reads one
    frame (here a foreign WRTE, which is parked: result `None`). -/
example :
    let w : World := { demoWorld [⟨.WRTE, 5, 9, [120]⟩] with store := Store.put [] 77 1 .WRTE [1] }
    (readIter [.WRTE] demoTxn true w).1.toOption = some (some ⟨.WRTE, 77, 1, [1]⟩) ∧
      (readIter [.WRTE] demoTxn true w).2.inboundRest = w.inboundRest ∧
      (readIter [.WRTE] demoTxn true (demoWorld [⟨.WRTE, 5, 9, [120]⟩])).1.toOption = some none ∧
      (readIter [.WRTE] demoTxn true (demoWorld [⟨.WRTE, 5, 9, [120]⟩])).2.inboundRest = [] ∧
      E2E.wireFates (readIter [.WRTE] demoTxn true (demoWorld [⟨.WRTE, 5, 9, [120]⟩])).2.trace
        = [(.parked, ⟨.WRTE, 5, 9, [120]⟩)] := by
  decide +kernel

/-- non-vacuity of `C01_ioRead_from_empty_store`: `_open`'s read (expected = [OKAY], allow_zeros=False, local id 1) on
    the stream  foreign WRTE(5,9) · WRTE(77,1) · OKAY(77,1) · CLSE(77,1)  returns the OKAY; the foreign WRTE was
    parked, the early WRTE for local id 1 dropped; the CLSE is still in the stream. -/
example :
    let t : Txn := ⟨some 1, none, some 10240, some 10240, none⟩
    let ps : List Pkt := [⟨.WRTE, 5, 9, [120]⟩, ⟨.WRTE, 77, 1, [7]⟩, ⟨.OKAY, 77, 1, []⟩, ⟨.CLSE, 77, 1, []⟩]
    (demoWorld ps).store = [] ∧ (demoWorld ps).inboundRest = (ps.map Pkt.encode).flatten ++ [] ∧
      (∀ q ∈ ps, q.toMsg.Packable) ∧
      (ioRead [.OKAY] t false (demoWorld ps)).1.toOption = some ⟨.OKAY, 77, 1, []⟩ ∧
      E2E.wireFates (ioRead [.OKAY] t false (demoWorld ps)).2.trace =
        [(.parked, ⟨.WRTE, 5, 9, [120]⟩), (.dropped, ⟨.WRTE, 77, 1, [7]⟩), (.delivered, ⟨.OKAY, 77, 1, []⟩)] ∧
      (ioRead [.OKAY] t false (demoWorld ps)).2.inboundRest = (⟨.CLSE, 77, 1, []⟩ : Pkt).encode := by
  refine ⟨rfl, E2E.demoWorld_inboundRest _, by decide, ?_, ?_, ?_⟩ <;> decide +kernel

/-- non-vacuity of `C01_readUntilClose_end_to_end`: the open stream (77, 1) of `demoTxn`, empty store, device stream
    foreign WRTE · "€" first half · an OKAY of this stream (dropped) · second half · CLSE · a further foreign packet. -/
example :
    let ps : List Pkt := [⟨.WRTE, 5, 9, [120]⟩, ⟨.WRTE, 77, 1, [0xE2, 0x82]⟩, ⟨.OKAY, 77, 1, []⟩, ⟨.WRTE, 77, 1, [0xAC, 0x21]⟩,
      ⟨.CLSE, 77, 1, []⟩, ⟨.WRTE, 5, 9, [121]⟩]
    E2E.Clean demoTxn true (demoWorld ps).store ∧ (demoWorld ps).inboundRest = (ps.map Pkt.encode).flatten ++ [] ∧
      (readUntilClose demoTxn (demoWorld ps)).1.toOption = some [[0xE2, 0x82], [0xAC, 0x21]] ∧
      E2E.wireFates (readUntilClose demoTxn (demoWorld ps)).2.trace =
        [(.parked, ⟨.WRTE, 5, 9, [120]⟩), (.delivered, ⟨.WRTE, 77, 1, [0xE2, 0x82]⟩), (.dropped, ⟨.OKAY, 77, 1, []⟩),
         (.delivered, ⟨.WRTE, 77, 1, [0xAC, 0x21]⟩), (.delivered, ⟨.CLSE, 77, 1, []⟩)] ∧
      (readUntilClose demoTxn (demoWorld ps)).2.inboundRest = (⟨.WRTE, 5, 9, [121]⟩ : Pkt).encode := by
  refine ⟨E2E.Clean.empty _ _, E2E.demoWorld_inboundRest _, ?_, ?_, ?_⟩ <;> decide +kernel

/-- the hypotheses of `C01_end_to_end` hold in `demoShellWorld` (empty store, stream = encodings of `E2E.demoShellPkts`,
    packable, nothing after them, no zero ids), and `_service` returns there -/
example : demoShellWorld.store = [] ∧
    demoShellWorld.inboundRest = (E2E.demoShellPkts.map Pkt.encode).flatten ++ [] ∧ (∀ p ∈ E2E.demoShellPkts, p.toMsg.Packable) ∧
    ¬ E2E.Readable [] ∧ E2E.NoEarlyZero (nextId demoShellWorld.localId) E2E.demoShellPkts ∧
    ∃ v w', service (ascii "shell") [108, 115] none (some 10240) none false demoShellWorld = (.ok v, w') :=
  ⟨rfl, E2E.demoWorld_inboundRest E2E.demoShellPkts, by decide, E2E.not_readable_of_short (by decide),
    E2E.NoEarlyZero.of_nonzero (by decide), .bytes [0xE2, 0x82, 0xAC, 0x21], _,
    run_ok_of_toOption (x := service (ascii "shell") [108, 115] none (some 10240) none false) (w := demoShellWorld)
      (by decide +kernel)⟩

/-- the conclusion, evaluated: the reference semantics on the device's packets gives the two payloads of this
    stream (without the foreign "x") and leaves nothing over -/
example : E2E.streamItems (nextId demoShellWorld.localId) E2E.demoShellPkts = some ([[0xE2, 0x82], [0xAC, 0x21]], []) := by
  decide +kernel

/-- … hence, BY THE THEOREM (not by running the model), whatever `_service` returns in `demoShellWorld` is the four
    bytes and the device stream is used up -/
example (v : Val) (w' : World)
    (h : service (ascii "shell") [108, 115] none (some 10240) none false demoShellWorld = (.ok v, w')) :
    v = .bytes [0xE2, 0x82, 0xAC, 0x21] ∧ w'.inboundRest = [] := by
  have := C01_end_to_end_output (ascii "shell") [108, 115] none (some 10240) none false demoShellWorld w' v E2E.demoShellPkts []
    [[0xE2, 0x82], [0xAC, 0x21]] [] rfl (E2E.demoWorld_inboundRest E2E.demoShellPkts) (by decide)
    (E2E.NoEarlyZero.of_nonzero (by decide)) (by decide +kernel) h
  simpa using this

/-- and the decomposition `C01_end_to_end` speaks about is the expected one -/
example : E2E.Conversation 1 E2E.demoShellPkts [] ⟨.OKAY, 77, 1, []⟩
    [⟨.WRTE, 5, 9, [120]⟩, ⟨.WRTE, 77, 1, [0xE2, 0x82]⟩, ⟨.WRTE, 77, 1, [0xAC, 0x21]⟩] ⟨.CLSE, 77, 1, []⟩ [] ∧
    E2E.convFates 1 [] ⟨.OKAY, 77, 1, []⟩
      [⟨.WRTE, 5, 9, [120]⟩, ⟨.WRTE, 77, 1, [0xE2, 0x82]⟩, ⟨.WRTE, 77, 1, [0xAC, 0x21]⟩] ⟨.CLSE, 77, 1, []⟩ =
      [(.delivered, ⟨.OKAY, 77, 1, []⟩), (.parked, ⟨.WRTE, 5, 9, [120]⟩), (.delivered, ⟨.WRTE, 77, 1, [0xE2, 0x82]⟩),
       (.delivered, ⟨.WRTE, 77, 1, [0xAC, 0x21]⟩), (.delivered, ⟨.CLSE, 77, 1, []⟩)] :=
  ⟨⟨rfl, by simp, by decide, by decide, by decide⟩, by decide⟩

/-- The zero-id hypothesis `NoEarlyZero` cannot be dropped: the device sends WRTE(77, 0, "z") BEFORE the OKAY(77, 1)
    and then closes.  While `_open` waits (allow_zeros=False) the WRTE is parked under (77, 0); `_read_until_close`
    (allow_zeros=True) then takes it out of the store as if it belonged to the new stream: `_service` returns "z",
    although the device wrote nothing between the OKAY and the CLSE (`streamItems` gives no items). -/
example :
    let zeroPkts : List Pkt := [⟨.WRTE, 77, 0, [122]⟩, ⟨.OKAY, 77, 1, []⟩, ⟨.CLSE, 77, 1, []⟩]
    (service (ascii "shell") [108, 115] none (some 10240) none false (demoWorld zeroPkts)).1.toOption = some (.bytes [122]) ∧
      E2E.streamItems 1 zeroPkts = some ([], []) ∧ ¬ E2E.NoEarlyZero 1 zeroPkts := by
  refine ⟨by decide +kernel, by decide +kernel, ?_⟩
  intro h
  obtain ⟨o, ho, -⟩ := h [] ⟨.WRTE, 77, 0, [122]⟩ [⟨.OKAY, 77, 1, []⟩, ⟨.CLSE, 77, 1, []⟩] rfl rfl
  simp at ho

end Adb
