import AdbProofs.Lemmas.SrcLoops
import AdbProofs.Properties.C02Src
/-
  C02 / C15 (tie to the source, by proof) — `_AdbIOManager._send` (both twins): header, then payload, back to back. harness/pytrans.py cuts the CURRENT source of
  `_send` at its two `self._write_all(...)` calls; the theorems say that the first thing it hands to the write loop is exactly `msg.pack()` — the model's 24-byte
  header (`struct.error` exactly when the model's `pack?` is `none`) — and the second, only for a non-empty payload, exactly `msg.data`; nothing else is written.
  This is the model's `sendRaw` (`writeAll hdr`, then `writeAll data` iff the payload is non-empty).
  Only property theorems live here.
-/
set_option linter.unusedSimpArgs false
namespace Adb
open Py

/-- First write request of `_send` (both twins): the packed header of the message, or `struct.error` when a field does not fit 32 bits. -/
theorem C02_src_send_first_request (cls : String) (m : Msg) (info : Py.Val) :
    Src.AdbDevice_send_eff0_args (encMsg cls m) info
        = (match m.pack? with
           | some h => .ok (.tuple [.str "request", .str "_write_all", .bytes h, info])
           | none => .error .structError)
      ∧ Src.AdbDeviceAsync_send_eff0_args (encMsg cls m) info
        = (match m.pack? with
           | some h => .ok (.tuple [.str "request", .str "_write_all", .bytes h, info])
           | none => .error .structError) := by
  constructor <;>
    (simp only [Src.AdbDevice_send_eff0_args, Src.AdbDeviceAsync_send_eff0_args, C02_src_pack]
     cases m.pack? <;> simp [pysimp])

/-- Second write request of `_send` (both twins), `eff0` being whatever the first write loop returned: exactly the payload, and only when it is non-empty;
    with an empty payload `_send` is finished (returns `None`) without a second write. -/
theorem C02_src_send_second_request (cls : String) (m : Msg) (info eff0 : Py.Val) :
    Src.AdbDevice_send_eff1_args (encMsg cls m) info eff0
        = (match m.pack? with
           | none => .error .structError
           | some _ => if m.data.isEmpty then .ok .none else .ok (.tuple [.str "request", .str "_write_all", .bytes m.data, info]))
      ∧ Src.AdbDeviceAsync_send_eff1_args (encMsg cls m) info eff0
        = (match m.pack? with
           | none => .error .structError
           | some _ => if m.data.isEmpty then .ok .none else .ok (.tuple [.str "request", .str "_write_all", .bytes m.data, info])) := by
  constructor <;>
    (simp only [Src.AdbDevice_send_eff1_args, Src.AdbDeviceAsync_send_eff1_args, C02_src_pack]
     cases m.pack? with
     | none => simp [pysimp]
     | some h =>
       by_cases he : m.data.isEmpty <;> simp [pysimp, encMsg, Py.alookupS, he])

end Adb
