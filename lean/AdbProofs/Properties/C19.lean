import AdbProofs.Lemmas.StoreFind
/-
  C19 — buffered packets are kept per stream in FIFO order with correct wildcard lookup.
  The concrete model (`Adb.Store`, nested insertion-ordered dicts, transcribed from
  `_AdbPacketStore`) refines the abstract map `AStore : (arg0, arg1) ↦ FIFO queue`.
-/
namespace Adb
open Store

/-- The representation invariant holds initially and is preserved by every mutating operation. -/
theorem C19_inv_preserved (s : Store) (hI : Inv s) (a0 a1 : Nat) (cmd : Cmd) (d : Bytes) :
    Inv ([] : Store) ∧ Inv (s.put a0 a1 cmd d) ∧ Inv (s.clear a0 a1) ∧ Inv (s.clearAll)
      ∧ (∀ r s', s.get (some a0) (some a1) = .ok (r, s') → Inv s') := by
  refine ⟨inv_empty, inv_put hI a0 a1 cmd d, inv_clear hI a0 a1, inv_empty, ?_⟩
  intro r s' h
  have := get_concrete hI a0 a1
  cases hq : s.queue a0 a1 with
  | none => simp [hq, h] at this
  | some q =>
    cases q with
    | nil => simp [hq, h] at this
    | cons x q =>
      obtain ⟨c, d'⟩ := x
      simp only [hq] at this
      obtain ⟨s'', hg, hI', _⟩ := this
      rw [hg] at h
      simp at h
      rw [← h.2]; exact hI'

/-- Parking appends to the queue of exactly the pair the packet arrived with and changes no other
    pair; the only packet not parked is a CLSE for a pair the store has no entry for (K1, see C06). -/
theorem C19_put_abs (s : Store) (a0 a1 : Nat) (cmd : Cmd) (d : Bytes) :
    (fun b0 b1 => (s.put a0 a1 cmd d).queue b0 b1) = AStore.put (fun b0 b1 => s.queue b0 b1) a0 a1 cmd d := by
  have h := queue_put (s := s) a0 a1 cmd d
  unfold AStore.put
  by_cases hc : cmd = Cmd.CLSE ∧ s.queue a0 a1 = none
  · rw [h.1 hc]
    simp [hc]
  · simp only [hc, if_false]
    funext b0 b1
    by_cases hb : b0 = a0 ∧ b1 = a1
    · obtain ⟨h0, h1⟩ := hb; subst h0 h1
      simp [(h.2 hc).1]
    · simp [hb, (h.2 hc).2 b0 b1 hb]

/-- Retrieval: a packet comes back only under the pair it was parked with, oldest first; taking a
    stream's CLSE forgets that stream; an unknown pair or an exhausted queue is an error. -/
theorem C19_get_fifo (s : Store) (hI : Inv s) (a0 a1 : Nat) :
    (match s.get (some a0) (some a1) with
      | .ok (r, s') => Except.ok (r, fun b0 b1 => s'.queue b0 b1)
      | .error e => Except.error e)
    = AStore.get (fun b0 b1 => s.queue b0 b1) a0 a1 := by
  have := get_concrete hI a0 a1
  unfold AStore.get
  cases hq : s.queue a0 a1 with
  | none => simp only [hq] at this; simp [this, hq]
  | some q =>
    cases q with
    | nil => simp only [hq] at this; simp [this, hq]
    | cons x q =>
      obtain ⟨c, d⟩ := x
      simp only [hq] at this
      obtain ⟨s', hg, _, hq'⟩ := this
      simp only [hg, hq]
      congr 2
      funext b0 b1
      exact hq' b0 b1

theorem C19_clear_abs (s : Store) (hI : Inv s) (a0 a1 : Nat) :
    (fun b0 b1 => (s.clear a0 a1).queue b0 b1) = AStore.clear (fun b0 b1 => s.queue b0 b1) a0 a1 := by
  funext b0 b1; exact queue_clear hI a0 a1 b0 b1

/-- Clearing everything forgets everything. -/
theorem C19_clear_all (s : Store) : (fun b0 b1 => (s.clearAll).queue b0 b1) = AStore.empty := by
  funext b0 b1; simp [Store.clearAll, queue, AStore.empty]

/-- `pendingKeys` is exactly the set of pairs with a pending packet. -/
theorem C19_pending_iff (s : Store) (hI : Inv s) (k0 k1 : Nat) :
    (k0, k1) ∈ pendingKeys s ↔ ∃ q, s.queue k0 k1 = some q ∧ q ≠ [] := mem_pendingKeys hI k0 k1

/-- Lookup with exact ids, an unknown remote id (`none`), an unknown local id, or both: the answer is
    a pair that currently has a pending packet and matches; no answer only if no pending pair matches. -/
theorem C19_find_sound_complete (s : Store) (hI : Inv s) (p0 p1 : Option Nat) :
    (∀ k, s.find p0 p1 = some k → k ∈ pendingKeys s ∧ keyMatches p0 p1 k = true) ∧
    (s.find p0 p1 = none → ∀ k ∈ pendingKeys s, keyMatches p0 p1 k = false) := find_spec hI p0 p1

/-- Exact lookup returns the very pair asked for, exactly when it has a pending packet. -/
theorem C19_find_exact (s : Store) (hI : Inv s) (a0 a1 : Nat) :
    (s.find (some a0) (some a1) = some (a0, a1) ↔ ∃ q, s.queue a0 a1 = some q ∧ q ≠ []) ∧
    (∀ k, s.find (some a0) (some a1) = some k → k = (a0, a1)) := by
  have h := find_spec hI (some a0) (some a1)
  have hk : ∀ k, s.find (some a0) (some a1) = some k → k = (a0, a1) := by
    intro k hk
    have := (h.1 k hk).2
    obtain ⟨k0, k1⟩ := k
    simp [keyMatches] at this
    simp [this]
  refine ⟨⟨?_, ?_⟩, hk⟩
  · intro hf
    exact (mem_pendingKeys hI a0 a1).1 (h.1 _ hf).1
  · intro hq
    have hm := (mem_pendingKeys hI a0 a1).2 hq
    cases hf : s.find (some a0) (some a1) with
    | none => have := h.2 hf _ hm; simp [keyMatches] at this
    | some k => rw [hk k hf]

/-- The legacy zero-id fallbacks: same two clauses with the four patterns (a0,a1), (a0,0), (0,a1), (0,0). -/
theorem C19_zero_fallback (s : Store) (hI : Inv s) (p0 p1 : Option Nat) :
    (∀ k, s.findAllowZeros p0 p1 = some k → k ∈ pendingKeys s ∧ keyMatchesZ p0 p1 k = true) ∧
    (s.findAllowZeros p0 p1 = none → ∀ k ∈ pendingKeys s, keyMatchesZ p0 p1 k = false) :=
  findAllowZeros_spec hI p0 p1

/-- The reported number of pending streams is the number of pairs with pending packets. -/
theorem C19_len (s : Store) : s.len = (pendingKeys s).length := by
  induction s with
  | nil => simp [Store.len, pendingKeys]
  | cons p rest ih =>
    simp only [Store.len, pendingKeys, List.map_cons, List.sum_cons, List.flatMap_cons, List.length_append,
      List.length_map] at ih ⊢
    omega

/-- Any history: running any sequence of operations on the implementation-shaped store and on the
    abstract map from related states yields the same outputs and related states (refinement), and
    every reachable state satisfies the invariant (so the lookup theorems apply to it). -/
theorem C19_history (ops : List SOp) (s : Store) (a : AStore) (hI : Inv s)
    (hrel : (fun b0 b1 => s.queue b0 b1) = a) :
    (s.runOps ops).2 = (a.runOps ops).2
      ∧ (fun b0 b1 => (s.runOps ops).1.queue b0 b1) = (a.runOps ops).1
      ∧ Inv (s.runOps ops).1 := by
  induction ops generalizing s a with
  | nil => simp [Store.runOps, AStore.runOps, hrel, hI]
  | cons op ops ih =>
    have step : (s.stepOp op).2 = (a.stepOp op).2
        ∧ (fun b0 b1 => (s.stepOp op).1.queue b0 b1) = (a.stepOp op).1 ∧ Inv (s.stepOp op).1 := by
      subst hrel
      cases op with
      | put a0 a1 c d =>
        exact ⟨rfl, C19_put_abs s a0 a1 c d, inv_put hI a0 a1 c d⟩
      | clear a0 a1 => exact ⟨rfl, C19_clear_abs s hI a0 a1, inv_clear hI a0 a1⟩
      | clearAll => exact ⟨rfl, C19_clear_all s, inv_empty⟩
      | get a0 a1 =>
        have hg := C19_get_fifo s hI a0 a1
        have hinv := (C19_inv_preserved s hI a0 a1 Cmd.OKAY []).2.2.2.2
        simp only [Store.stepOp, AStore.stepOp]
        cases hc : s.get (some a0) (some a1) with
        | error e =>
          simp only [hc] at hg
          simp [← hg, hI]
        | ok v =>
          obtain ⟨r, s'⟩ := v
          simp only [hc] at hg
          simp [← hg, hinv r s' hc]
    obtain ⟨ho, hs, hi⟩ := step
    have := ih (s.stepOp op).1 (a.stepOp op).1 hi hs
    simp only [Store.runOps, AStore.runOps]
    exact ⟨by simp [ho, this.1], this.2.1, this.2.2⟩

/-- Non-vacuity: a concrete reachable store with two streams, one of them only reachable through a
    zero-id fallback; FIFO order and CLSE-forgets observed by evaluation. -/
example :
    let s := (((Store.empty.put 7 3 .WRTE [1]).put 7 3 .WRTE [2]).put 0 3 .OKAY []).put 7 3 .CLSE []
    Inv s ∧ s.len = 2
      ∧ s.find none (some 3) = some (7, 3)
      ∧ s.findAllowZeros (some 9) (some 3) = some (0, 3)
      ∧ (match s.get (some 7) (some 3) with | .ok (r, _) => some r | _ => none) = some (.WRTE, 7, 3, [1]) := by
  refine ⟨?_, by decide, by decide, by decide, by decide⟩
  exact inv_put (inv_put (inv_put (inv_put inv_empty _ _ _ _) _ _ _ _) _ _ _ _) _ _ _ _

end Adb
