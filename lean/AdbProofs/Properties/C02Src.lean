import AdbProofs.Lemmas.SrcMsg
/-
  C02 (source tie) — the GENERATED Lean translation of adb_shell's adb_message.py (`Adb.Src.checksum`, `Src.unpack`,
  `Src.AdbMessage_init`, `Src.AdbMessage_pack`, `Src.AdbMessage_checksum`; `AdbModel/Generated/Src.lean`, produced from
  the current Python source by harness/pytrans.py over the Python-subset semantics `AdbModel/Py.lean`) computes, for ALL
  inputs, exactly what the hand-written model `AdbModel/Message.lean` says (`checksum`, `unpack`, `Msg`, `magicOf`,
  `Msg.packHdr`, `Msg.pack?`, with `Cmd.wire`).
  Only property theorems and non-vacuity examples live here; encoders (`Cmd.idBytes`, `encMsg`, `encHdr`) and helper
  lemmas are in AdbProofs/Lemmas/SrcMsg.lean.
-/
namespace Adb
open Py

/-- The source's `checksum(data)` on a `bytes` object and on a `bytearray` returns the model's `checksum`
    (`sum(data) & 0xFFFFFFFF` = byte sum mod 2^32), for every content — including the empty one, where the source's
    `data and isinstance(data[0], bytes)` test short-circuits. -/
theorem C02_src_checksum_bytes (d : Bytes) :
    Src.checksum (.bytes d) = .ok (.int (checksum d))
      ∧ Src.checksum (.bytearray d) = .ok (.int (checksum d)) :=
  ⟨src_checksum_bytes d, src_checksum_bytearray d⟩

/-- The source's `AdbMessage.__init__(self, command, arg0, arg1, data)` on a fresh object, called with the id bytes of
    a known command (`b'AUTH'`, …) and non-negative ints, returns `None` and leaves exactly the object the model
    describes: `command` = the model's `Cmd.wire`, `magic` = `magicOf` of it (`command ^ 0xFFFFFFFF`), `arg0`, `arg1`,
    `data` stored unchanged, attributes in that order. -/
theorem C02_src_msg_init (cls : String) (c : Cmd) (a0 a1 : Nat) (d : Bytes) :
    Src.AdbMessage_init (.obj cls []) (.bytes c.idBytes) (.int a0) (.int a1) (.bytes d)
      = .ok (.none, encMsg cls ⟨c, a0, a1, d⟩) := by
  simp [Src.AdbMessage_init, src_idToWire_get, Py.bitxor_mask, encMsg,
    setPath, setAcc, setAttr, asetS, getAttr, alookupS, bind, Except.bind, pure, Except.pure]

/-- With a bytes id that is none of the seven ids of `constants.IDS`, the source's `AdbMessage.__init__` raises
    `KeyError` (from `constants.ID_TO_WIRE[command]`) whatever the receiver and the other arguments are: the model's
    `Msg` having a `Cmd` (not arbitrary bytes) as its command loses nothing. -/
theorem C02_src_msg_init_unknown_id (self : Py.Val) (b : Bytes) (a0 a1 d : Py.Val) (h : ∀ c : Cmd, b ≠ c.idBytes) :
    Src.AdbMessage_init self (.bytes b) a0 a1 d = .error .keyError := by
  simp only [Src.AdbMessage_init, src_idToWire_get_bad b h, Py.bind_error]

/-- The source's `AdbMessage.checksum` property on a constructed message is the model's `checksum` of its payload. -/
theorem C02_src_msg_checksum (cls : String) (m : Msg) :
    Src.AdbMessage_checksum (encMsg cls m) = .ok (.int (checksum m.data)) :=
  src_msg_checksum_of_attr _ _ (encMsg_attrs cls m).2.2.2.2

/-- The source's `AdbMessage.pack()` on a constructed message returns exactly the model's 24-byte header
    (`Msg.packHdr`) when the message is `Packable` (arg0, arg1, payload length < 2^32), and raises `struct.error`
    otherwise — i.e. it is the model's `Msg.pack?`. -/
theorem C02_src_pack (cls : String) (m : Msg) :
    Src.AdbMessage_pack (encMsg cls m)
      = (match m.pack? with | some h => .ok (.bytes h) | none => .error .structError) := by
  obtain ⟨e1, e2, e3, e4, e5⟩ := encMsg_attrs cls m
  rw [src_pack_of_attrs _ _ _ _ _ _ e1 e2 e3 e4 e5 (Cmd.wire_lt m.cmd) (magicOf_wire_lt m.cmd)]
  by_cases h : m.Packable
  · have h' := h; unfold Msg.Packable at h'
    simp only [Msg.pack?, if_pos h, if_pos h', Msg.packHdr]
  · have h' := h; unfold Msg.Packable at h'
    simp only [Msg.pack?, if_neg h, if_neg h']

/-- The source's `unpack(message)` on a `bytes` object and on a `bytearray` returns the 5-tuple
    `(cmd, arg0, arg1, data_length, data_checksum)` of the model's `unpack` when the buffer is exactly 24 bytes, and
    raises `ValueError` (the converted `struct.error`) in every other case — exactly where the model returns `none`. -/
theorem C02_src_unpack (bs : Bytes) :
    Src.unpack (.bytes bs)
        = (match unpack bs with
           | some h => .ok (.tuple [.int h.cmd, .int h.arg0, .int h.arg1, .int h.len, .int h.sum])
           | none => .error .valueError)
      ∧ Src.unpack (.bytearray bs)
        = (match unpack bs with
           | some h => .ok (.tuple [.int h.cmd, .int h.arg0, .int h.arg1, .int h.len, .int h.sum])
           | none => .error .valueError) :=
  ⟨src_unpack_of_bytesOf (.bytes bs) bs rfl, src_unpack_of_bytesOf (.bytearray bs) bs rfl⟩

/-! ### non-vacuity -/

/-- the hypothesis of `C02_src_msg_init_unknown_id` is satisfiable: `b'FAIL'` (a FileSync id) and `b''` are not ADB ids -/
example : (∀ c : Cmd, ([70, 65, 73, 76] : Bytes) ≠ c.idBytes) ∧ (∀ c : Cmd, ([] : Bytes) ≠ c.idBytes) := by
  constructor <;> intro c <;> cases c <;> decide

/-- … and it really excludes the seven ids: `b'OKAY'` is `Cmd.OKAY.idBytes` -/
example : ([79, 75, 65, 89] : Bytes) = Cmd.OKAY.idBytes := by decide

/-- both branches of `C02_src_pack` occur: a packable message and one whose arg0 is 2^32 -/
example : (⟨.OPEN, 1, 0, [1, 2, 3]⟩ : Msg).pack?
      = some [79, 80, 69, 78, 1, 0, 0, 0, 0, 0, 0, 0, 3, 0, 0, 0, 6, 0, 0, 0, 176, 175, 186, 177]
    ∧ (⟨.OPEN, 4294967296, 0, []⟩ : Msg).pack? = none := by decide

/-- the generated `pack` on that concrete message, through the theorem -/
example : Src.AdbMessage_pack (encMsg "AdbMessage" ⟨.OPEN, 1, 0, [1, 2, 3]⟩)
    = .ok (.bytes [79, 80, 69, 78, 1, 0, 0, 0, 0, 0, 0, 0, 3, 0, 0, 0, 6, 0, 0, 0, 176, 175, 186, 177]) := by
  rw [C02_src_pack, show (⟨.OPEN, 1, 0, [1, 2, 3]⟩ : Msg).pack?
    = some [79, 80, 69, 78, 1, 0, 0, 0, 0, 0, 0, 0, 3, 0, 0, 0, 6, 0, 0, 0, 176, 175, 186, 177] by decide]

/-- both branches of `C02_src_unpack` occur: a 24-byte header and a short buffer -/
example : unpack [79, 80, 69, 78, 1, 0, 0, 0, 0, 0, 0, 0, 3, 0, 0, 0, 6, 0, 0, 0, 176, 175, 186, 177]
      = some ⟨1313165391, 1, 0, 3, 6⟩
    ∧ unpack [1, 2, 3] = none := by decide

/-- the generated `unpack` on the short buffer, through the theorem: `ValueError` -/
example : Src.unpack (.bytes [1, 2, 3]) = .error .valueError := by
  rw [(C02_src_unpack _).1, show unpack [1, 2, 3] = none by decide]

/-- the generated `checksum` on a concrete value, through the theorem -/
example : Src.checksum (.bytes [255, 255, 1]) = .ok (.int 511) := by
  rw [(C02_src_checksum_bytes _).1, show checksum [255, 255, 1] = 511 by decide]; rfl

end Adb
