import AdbProofs.Lemmas.NextId
/-
  C14 — stream ids are non-zero, fit 32 bits, and are unique among live streams.
  `nextId` models `self._local_id += 1; if self._local_id == 2**32: self._local_id = 1` of `_open`;
  `openStream` allocates the id under the local-id lock and uses exactly that id in the OPEN message.
  Only property theorems and non-vacuity examples live here; helper lemmas are in AdbProofs/Lemmas.
-/
namespace Adb

/-- Every allocated id is in `[1, 2^32 - 1]` (given the counter itself is a 32-bit value, which it
    is initially (0) and, by this very theorem, stays). -/
theorem C14_range (c : Nat) (h : c < 4294967296) : 1 ≤ nextId c ∧ nextId c < 4294967296 :=
  nextId_range c h

/-- The id handed out by the `(k+1)`-th open after the counter was `c` is in `[1, 2^32 - 1]`. -/
theorem C14_range_iter (c k : Nat) (h : c < 4294967296) :
    1 ≤ nextId^[k+1] c ∧ nextId^[k+1] c < 4294967296 := by
  induction k generalizing c with
  | zero => exact nextId_range c h
  | succ k ih =>
    rw [nextId_iter_succ]
    exact ih (nextId c) (nextId_range c h).2

/-- Closed form: from a counter `c` in `[1, 2^32 - 1]`, `k` allocations later the counter is
    `(c - 1 + k) mod (2^32 - 1) + 1` — the ids cycle through `1 … 2^32 - 1` and never hit 0. -/
theorem C14_closed_form (c k : Nat) (h1 : 1 ≤ c) (h2 : c < 4294967296) :
    nextId^[k] c = (c - 1 + k) % 4294967295 + 1 :=
  nextId_iter_closed k c h1 h2

/-- The counter starts at 0: the `(k+1)`-th stream ever opened gets id `k mod (2^32 - 1) + 1`. -/
theorem C14_closed_form_zero (k : Nat) : nextId^[k+1] 0 = k % 4294967295 + 1 := by
  rw [nextId_iter_succ, show nextId 0 = 1 from rfl, nextId_iter_closed k 1 (by omega) (by omega)]
  simp

/-- Two opens fewer than `2^32 - 1` allocations apart never get the same id, also across the
    wrap-around: a stream's id cannot be reused while fewer than `2^32 - 1` later streams were opened. -/
theorem C14_distinct_window (c i j : Nat) (h : c < 4294967296) (hij : i < j)
    (hw : j - i < 4294967295) : nextId^[i+1] c ≠ nextId^[j+1] c := by
  obtain ⟨h1, h2⟩ := nextId_range c h
  rw [nextId_iter_succ, nextId_iter_succ, nextId_iter_closed i _ h1 h2, nextId_iter_closed j _ h1 h2]
  omega

/-- The window in `C14_distinct_window` is tight: exactly `2^32 - 1` allocations later the same id
    comes back. -/
theorem C14_period (c k : Nat) (h1 : 1 ≤ c) (h2 : c < 4294967296) :
    nextId^[k + 4294967295] c = nextId^[k] c := by
  rw [nextId_iter_closed _ c h1 h2, nextId_iter_closed _ c h1 h2]
  omega

/-- `_open` uses the id it allocated. For every outcome `(r, w')` of `openStream dest tt rt total w`:
    1. a normal return carries `local_id = nextId (old counter)`;
    2. if the local-id lock was free, the counter afterwards is `nextId (old counter)`, on every exit
       (normal, `TypeError` from the timeouts, transport failure, timeout, …) — the counter only moves
       through `nextId`, once per call; if the lock was held the call blocks and nothing changes;
    3. the only message `_send` can have been entered with is `OPEN(nextId (old counter), 0, dest+b'\0')`
       (the events added to the trace contain no other `tx`);
    4. on a normal return that message was sent, exactly once. -/
theorem C14_open_uses_allocated (dest : Bytes) (tt rt total : Timeout) (w w' : World)
    (r : Except Err Txn) (h : openStream dest tt rt total w = (r, w')) :
    (∀ t, r = .ok t → t.localId = some (nextId w.localId))
      ∧ (lockLocalId ∉ w.locks → w'.localId = nextId w.localId)
      ∧ (lockLocalId ∈ w.locks → w' = w ∧ r = .error .hang)
      ∧ (∃ evs, w'.trace = evs ++ w.trace
            ∧ ∀ m, TEv.tx m ∈ evs → m = ⟨.OPEN, nextId w.localId, 0, dest ++ [0]⟩)
      ∧ (∀ t, r = .ok t → ∃ evs,
            w'.trace = evs ++ TEv.tx ⟨.OPEN, nextId w.localId, 0, dest ++ [0]⟩ :: w.trace
              ∧ ∀ m, TEv.tx m ∉ evs) := by
  by_cases hl : lockLocalId ∈ w.locks
  · rw [openStream_idlock_held dest tt rt total w hl] at h
    simp at h
    obtain ⟨hr, hw⟩ := h
    subst hr hw
    simp [hl]
  · rw [openStream_alloc_run dest tt rt total w hl] at h
    cases hm : Txn.make (some (nextId w.localId)) none (effTT tt w) rt total with
    | error e =>
      simp only [hm] at h
      simp at h
      obtain ⟨hr, hw⟩ := h
      subst hr hw
      simp [hl, allocWorld]
    | ok t =>
      simp only [hm] at h
      have hid : t.localId = some (nextId w.localId) := (Txn.make_localId hm).1
      have spec := openRest_spec dest t (allocWorld w)
      rw [h, hid] at spec
      simp only [Option.getD_some] at spec
      refine ⟨?_, fun _ => ?_, fun hl' => absurd hl' hl, ?_, ?_⟩
      · intro t' ht'
        rcases spec with ⟨_, e, he⟩ | ⟨_, hk⟩
        · simp [ht'] at he
        · exact hk t' ht'
      · rcases spec with ⟨hq, _⟩ | ⟨hs, _⟩
        · exact hq.1
        · exact hs.localId
      · rcases spec with ⟨hq, _⟩ | ⟨hs, _⟩
        · obtain ⟨evs, he, hn⟩ := hq.2
          exact ⟨evs, he, fun m hmem => absurd hmem (hn m)⟩
        · obtain ⟨evs, he, hn⟩ := hs.trace
          refine ⟨evs ++ [TEv.tx ⟨.OPEN, nextId w.localId, 0, dest ++ [0]⟩], by simpa [allocWorld] using he, ?_⟩
          intro m hmem
          rcases List.mem_append.mp hmem with h1 | h1
          · exact absurd h1 (hn m)
          · simpa using h1
      · intro t' ht'
        rcases spec with ⟨_, e, he⟩ | ⟨hs, _⟩
        · simp [ht'] at he
        · exact hs.trace

/-- The computation of `_open` spelled out: with the local-id lock free, the counter is advanced, the
    transaction info is built with the new id, and then — if the constructor did not raise — exactly
    `send(OPEN(new id, 0, dest+b'\0'))`, `read([OKAY])` run in the world whose only change is the counter. -/
theorem C14_open_unfold (dest : Bytes) (tt rt total : Timeout) (w : World)
    (hl : lockLocalId ∉ w.locks) :
    openStream dest tt rt total w =
      match Txn.make (some (nextId w.localId)) none (if tt.isSome then tt else w.defaultTT) rt total with
      | .ok t =>
          (ioSend ⟨.OPEN, nextId w.localId, 0, dest ++ [0]⟩ t >>= fun _ =>
           ioRead [.OKAY] t >>= fun p =>
           pure { t with remoteId := some p.arg0 }) { w with localId := nextId w.localId }
      | .error e => (.error e, { w with localId := nextId w.localId }) := by
  rw [openStream_alloc_run dest tt rt total w hl]
  cases hm : Txn.make (some (nextId w.localId)) none (effTT tt w) rt total with
  | error e => simp only [effTT] at hm; simp only [hm]; rfl
  | ok t =>
    have hid : t.localId = some (nextId w.localId) := (Txn.make_localId hm).1
    simp only [effTT] at hm
    simp only [hm, openRest, hid, Option.getD_some]
    rfl

/-! ### Non-vacuity -/

example : nextId 0 = 1 := by decide
example : nextId 4294967294 = 4294967295 := by decide
example : nextId 4294967295 = 1 := by decide
example : nextId^[3] 4294967294 = 2 := by decide
example : nextId^[3] 0 = 3 := by decide
-- across the wrap: the ids 2^32-1, 1, 2 are pairwise different
example : nextId^[1] 4294967294 ≠ nextId^[3] 4294967294 := by decide
-- hypotheses of the window theorem are satisfiable at the extreme: i = 0, j = 2^32 - 2
example : (0 : Nat) < 4294967294 ∧ 4294967294 - 0 < 4294967295 := by decide
-- and the window is tight: 2^32 - 1 allocations after id 5 the id is 5 again
example : nextId^[0 + 4294967295] 5 = 5 := by rw [C14_period 5 0 (by decide) (by decide)]; rfl

-- `C14_open_uses_allocated` on concrete runs. A device that answers `OKAY(77, 1)`, counter at 2^32-1:
-- the open returns normally with local id 1 (wrapped, not 0 and not 2^32) and remote id 77, the counter
-- is 1 afterwards, and the only message sent is `OPEN(1, 0, b"s\0")`.
example :
    let w0 : World := { cur := some { segs := [⟨0, (⟨.OKAY, 77, 1, []⟩ : Msg).encode⟩] }, localId := 4294967295 }
    ((openStream [115] none (some 10240) none w0).1.toOption.map (fun t => (t.localId, t.remoteId))
        = some (some 1, some 77))
      ∧ (openStream [115] none (some 10240) none w0).2.localId = 1
      ∧ (openStream [115] none (some 10240) none w0).2.trace.filter
          (fun e => match e with | .tx _ => true | _ => false) = [.tx ⟨.OPEN, 1, 0, [115, 0]⟩] := by
  decide +kernel
-- an exit by exception still advances the counter exactly once: `read_timeout_s=None` with a total
-- timeout raises `TypeError` before anything is sent; no connection raises on the first write after
-- `_send` was entered with the OPEN message
example :
    (openStream [115] none none (some 5) {}).2.localId = 1
      ∧ (openStream [115] none none (some 5) {}).2.trace = []
      ∧ (openStream [115] none (some 5) none {}).2.localId = 1
      ∧ (openStream [115] none (some 5) none {}).2.trace = [.tx ⟨.OPEN, 1, 0, [115, 0]⟩] := by
  decide +kernel
-- the local-id lock held: the call blocks, nothing is allocated
example : (openStream [115] none (some 5) none { locks := [lockLocalId] }).2.localId = 0 := by decide +kernel

end Adb
