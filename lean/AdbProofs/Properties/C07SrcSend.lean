import AdbProofs.Lemmas.SrcLoops
import AdbProofs.Properties.C07Src
import AdbProofs.Lemmas.SrcMsg
/-
  C07 (tie to the source, by proof) — `AdbDevice._filesync_send` / `AdbDeviceAsync._filesync_send`, translated from the CURRENT source by harness/pytrans.py as an
  effect-parameterised function: the call `self._filesync_flush(adb_info, filesync_info)` is the effect, its result is the state of `filesync_info` after the flush, and the
  function returns `(None, filesync_info')` — the object it mutated.  Proved here, for both twins:
    * the flush is requested exactly when `can_add_to_send_buffer(len(data))` is false (the model's `FsInfo.canAdd`), with the untouched `filesync_info`;
    * afterwards the record `<wire id> <size> data` (`fsRecord`, the model's `le32 id.wire ++ le32 size ++ data`) is written at `send_buffer[send_idx:]` of the (possibly flushed)
      object and `send_idx` advances by its length; `size` defaults to `len(data)`; a size that does not fit 32 bits is `struct.error` (the model's `pyStructError`);
    * a `str` argument (device paths) is encoded as UTF-8 before anything else: it behaves exactly like its UTF-8 bytes (`C07_src_send_str`);
    * `spliced_live_prefix`: whenever the record fits the buffer, the live prefix `send_buffer[:send_idx]` afterwards is the live prefix before followed by the record — the model's
      `sendBuf ++ le32 id.wire ++ le32 size ++ data` — and the buffer keeps its length.
  Only property theorems, the definitions they are stated with and non-vacuity examples live here (three evaluation lemmas for `struct.pack('<2I')` and slice assignment precede them).
-/
set_option linter.unusedSimpArgs false
namespace Adb
open Py

/-- the record `_filesync_send` appends: two little-endian words (wire id, size) and the data -/
def fsRecord (w size : Nat) (data : Bytes) : Bytes := le32 w ++ le32 size ++ data

/-- `b[idx:idx+len(rec)] = rec` with Python's clamping -/
def splice (buf : Bytes) (idx : Nat) (rec : Bytes) : Bytes :=
  buf.take (Nat.min idx buf.length) ++ rec ++ buf.drop (Nat.max (Nat.min idx buf.length) (Nat.min (idx + rec.length) buf.length))

/-- the two attribute updates `_filesync_send` performs -/
def sendUpdate (fs : List (String × Py.Val)) (idx : Nat) (buf rec : Bytes) : List (String × Py.Val) :=
  asetS "send_idx" (.int ((idx : Int) + (rec.length : Int))) (asetS "send_buffer" (.bytearray (splice buf idx rec)) fs)

/-- the optional `size` argument -/
def optV : Option Nat → Py.Val
  | none => .none
  | some s => .int s

/-- the generated `FILESYNC_ID_TO_WIRE` table maps every sync id to the model's wire value -/
theorem src_fsIdToWire_get (c : SyncId) : Py.getItem Src.const_FILESYNC_ID_TO_WIRE (.bytes (ascii c.name)) = .ok (.int c.wire) := by
  cases c <;> rfl

theorem SyncId.wire_lt (c : SyncId) : c.wire < 4294967296 := by cases c <;> decide

theorem Py.structPack_2I (w s : Nat) (hw : w < 4294967296) :
    Py.structPack (.bytes [60, 50, 73]) [.int w, .int s]
      = if s < 4294967296 then .ok (.bytes (le32 w ++ le32 s)) else .error .structError := by
  have h2 : Py.fmtWords [60, 50, 73] = some 2 := by decide
  simp only [Py.structPack, Py.fmtBytes, Py.bind_ok', Py.pure_ok', h2, Py.packWords_nat, hw]
  by_cases h : s < 4294967296 <;> simp [h, Py.packWords, pysimp]

/-- `b[l:l+n] = d` on a bytearray (Python clamps both ends to `len(b)`) -/
theorem Py.setSlice_nat (b d : Bytes) (l n : Nat) :
    Py.setSlice (.bytearray b) (.int l) (.int ((l : Int) + (n : Int))) (.bytes d)
      = .ok (.bytearray (b.take (Nat.min l b.length) ++ d ++ b.drop (Nat.max (Nat.min l b.length) (Nat.min (l + n) b.length)))) := by
  have h0 : (0 : Int) ≤ (l : Int) + (n : Int) := by omega
  have h1 : ((l : Int) + (n : Int)).toNat = l + n := by omega
  simp [Py.setSlice, Py.natOf, Py.asInt, pysimp, h0, h1]

theorem Py.isinstance_bytes_bytes (d : Bytes) : Py.isinstance (.bytes d) "bytes" = .ok (.bool true) := rfl

/-- whenever the record fits, the live prefix afterwards is the live prefix before followed by the record, and the buffer keeps its length -/
theorem spliced_live_prefix (buf rec : Bytes) (idx : Nat) (h : idx + rec.length ≤ buf.length) :
    (splice buf idx rec).take (idx + rec.length) = buf.take idx ++ rec ∧ (splice buf idx rec).length = buf.length := by
  have e1 : Nat.min idx buf.length = idx := by simp [Nat.min_def]; omega
  have e2 : Nat.min (idx + rec.length) buf.length = idx + rec.length := by simp [Nat.min_def]; omega
  have e3 : Nat.max idx (idx + rec.length) = idx + rec.length := by simp [Nat.max_def]
  simp only [splice, e1, e2, e3]
  constructor
  · rw [List.take_append_of_le_length (by simp; omega)]
    rw [List.take_of_length_le (by simp; omega)]
  · simp; omega


/-- `_filesync_send` (sync), no flush needed: when `send_idx + (recv_message_size + len(data)) < _maxdata` the flush effect is not used, the record is written at `send_idx` and
    `send_idx` advances; `size` defaults to `len(data)`. -/
theorem C07_src_send_noflush_sync (cls : String) (fs : List (String × Py.Val)) (cmd info eff0 : Py.Val) (w sz idx md : Nat) (buf data : Bytes) (size : Option Nat)
    (hw : Py.getItem Src.const_FILESYNC_ID_TO_WIRE cmd = .ok (.int w)) (hw32 : w < 4294967296)
    (h1 : alookupS "recv_message_size" fs = some (.int sz)) (h2 : alookupS "send_idx" fs = some (.int idx))
    (h3 : alookupS "_maxdata" fs = some (.int md)) (hb : alookupS "send_buffer" fs = some (.bytearray buf))
    (hadd : idx + (sz + data.length) < md) :
    Src.AdbDevice_filesync_send_fn cmd info (.obj cls fs) (.bytes data) (optV size) eff0
      = (if size.getD data.length < 4294967296 then .ok (.tuple [.none, .obj cls (sendUpdate fs idx buf (fsRecord w (size.getD data.length) data))]) else .error .structError)
    ∧ Src.AdbDevice_filesync_send_eff0_args cmd info (.obj cls fs) (.bytes data) (optV size)
      = (if size.getD data.length < 4294967296 then .ok (.tuple [.none, .obj cls (sendUpdate fs idx buf (fsRecord w (size.getD data.length) data))]) else .error .structError) := by
  cases size with
  | none =>
    by_cases hs : data.length < 4294967296 <;> constructor <;>
    simp [Src.AdbDevice_filesync_send_fn, Src.AdbDevice_filesync_send_eff0_args, pysimp, optV, Py.isinstance_bytes_bytes, Py.len_bytes, C07_src_can_add cls fs sz idx md _ h1 h2 h3, hadd, hw,
      Py.structPack_2I _ _ hw32, hs, h2, hb, Py.add_bytes_bytes, Py.setSlice_nat, -List.length_append, sendUpdate, fsRecord, splice]
  | some s =>
    by_cases hs : s < 4294967296 <;> constructor <;>
    simp [Src.AdbDevice_filesync_send_fn, Src.AdbDevice_filesync_send_eff0_args, pysimp, optV, Py.isinstance_bytes_bytes, Py.len_bytes, C07_src_can_add cls fs sz idx md _ h1 h2 h3, hadd, hw,
      Py.structPack_2I _ _ hw32, hs, h2, hb, Py.add_bytes_bytes, Py.setSlice_nat, -List.length_append, sendUpdate, fsRecord, splice]

/-- `_filesync_send` (sync), buffer full: when `send_idx + (recv_message_size + len(data)) < _maxdata` is false, `_filesync_flush(adb_info, filesync_info)` is requested with
    the untouched arguments, and the record is then written into the FLUSHED object (the effect's result) at its `send_idx`. -/
theorem C07_src_send_flush_sync (cls cls' : String) (fs fs' : List (String × Py.Val)) (cmd info : Py.Val) (w sz idx md idx' : Nat) (buf' data : Bytes) (size : Option Nat)
    (hw : Py.getItem Src.const_FILESYNC_ID_TO_WIRE cmd = .ok (.int w)) (hw32 : w < 4294967296)
    (h1 : alookupS "recv_message_size" fs = some (.int sz)) (h2 : alookupS "send_idx" fs = some (.int idx))
    (h3 : alookupS "_maxdata" fs = some (.int md))
    (h2' : alookupS "send_idx" fs' = some (.int idx')) (hb' : alookupS "send_buffer" fs' = some (.bytearray buf'))
    (hadd : ¬ idx + (sz + data.length) < md) :
    Src.AdbDevice_filesync_send_eff0_args cmd info (.obj cls fs) (.bytes data) (optV size)
      = .ok (.tuple [.str "request", .str "_filesync_flush", info, .obj cls fs])
    ∧ Src.AdbDevice_filesync_send_fn cmd info (.obj cls fs) (.bytes data) (optV size) (.obj cls' fs')
      = (if size.getD data.length < 4294967296 then .ok (.tuple [.none, .obj cls' (sendUpdate fs' idx' buf' (fsRecord w (size.getD data.length) data))]) else .error .structError) := by
  cases size with
  | none =>
    by_cases hs : data.length < 4294967296 <;> constructor <;>
    simp [Src.AdbDevice_filesync_send_fn, Src.AdbDevice_filesync_send_eff0_args, pysimp, optV, Py.isinstance_bytes_bytes, Py.len_bytes, C07_src_can_add cls fs sz idx md _ h1 h2 h3, hadd, hw,
      Py.structPack_2I _ _ hw32, hs, h2', hb', Py.add_bytes_bytes, Py.setSlice_nat, -List.length_append, sendUpdate, fsRecord, splice]
  | some s =>
    by_cases hs : s < 4294967296 <;> constructor <;>
    simp [Src.AdbDevice_filesync_send_fn, Src.AdbDevice_filesync_send_eff0_args, pysimp, optV, Py.isinstance_bytes_bytes, Py.len_bytes, C07_src_can_add cls fs sz idx md _ h1 h2 h3, hadd, hw,
      Py.structPack_2I _ _ hw32, hs, h2', hb', Py.add_bytes_bytes, Py.setSlice_nat, -List.length_append, sendUpdate, fsRecord, splice]

/-- `_filesync_send` (async), no flush needed: when `send_idx + (recv_message_size + len(data)) < _maxdata` the flush effect is not used, the record is written at `send_idx` and
    `send_idx` advances; `size` defaults to `len(data)`. -/
theorem C07_src_send_noflush_async (cls : String) (fs : List (String × Py.Val)) (cmd info eff0 : Py.Val) (w sz idx md : Nat) (buf data : Bytes) (size : Option Nat)
    (hw : Py.getItem Src.const_FILESYNC_ID_TO_WIRE cmd = .ok (.int w)) (hw32 : w < 4294967296)
    (h1 : alookupS "recv_message_size" fs = some (.int sz)) (h2 : alookupS "send_idx" fs = some (.int idx))
    (h3 : alookupS "_maxdata" fs = some (.int md)) (hb : alookupS "send_buffer" fs = some (.bytearray buf))
    (hadd : idx + (sz + data.length) < md) :
    Src.AdbDeviceAsync_filesync_send_fn cmd info (.obj cls fs) (.bytes data) (optV size) eff0
      = (if size.getD data.length < 4294967296 then .ok (.tuple [.none, .obj cls (sendUpdate fs idx buf (fsRecord w (size.getD data.length) data))]) else .error .structError)
    ∧ Src.AdbDeviceAsync_filesync_send_eff0_args cmd info (.obj cls fs) (.bytes data) (optV size)
      = (if size.getD data.length < 4294967296 then .ok (.tuple [.none, .obj cls (sendUpdate fs idx buf (fsRecord w (size.getD data.length) data))]) else .error .structError) := by
  cases size with
  | none =>
    by_cases hs : data.length < 4294967296 <;> constructor <;>
    simp [Src.AdbDeviceAsync_filesync_send_fn, Src.AdbDeviceAsync_filesync_send_eff0_args, pysimp, optV, Py.isinstance_bytes_bytes, Py.len_bytes, C07_src_can_add cls fs sz idx md _ h1 h2 h3, hadd, hw,
      Py.structPack_2I _ _ hw32, hs, h2, hb, Py.add_bytes_bytes, Py.setSlice_nat, -List.length_append, sendUpdate, fsRecord, splice]
  | some s =>
    by_cases hs : s < 4294967296 <;> constructor <;>
    simp [Src.AdbDeviceAsync_filesync_send_fn, Src.AdbDeviceAsync_filesync_send_eff0_args, pysimp, optV, Py.isinstance_bytes_bytes, Py.len_bytes, C07_src_can_add cls fs sz idx md _ h1 h2 h3, hadd, hw,
      Py.structPack_2I _ _ hw32, hs, h2, hb, Py.add_bytes_bytes, Py.setSlice_nat, -List.length_append, sendUpdate, fsRecord, splice]

/-- `_filesync_send` (async), buffer full: when `send_idx + (recv_message_size + len(data)) < _maxdata` is false, `_filesync_flush(adb_info, filesync_info)` is requested with
    the untouched arguments, and the record is then written into the FLUSHED object (the effect's result) at its `send_idx`. -/
theorem C07_src_send_flush_async (cls cls' : String) (fs fs' : List (String × Py.Val)) (cmd info : Py.Val) (w sz idx md idx' : Nat) (buf' data : Bytes) (size : Option Nat)
    (hw : Py.getItem Src.const_FILESYNC_ID_TO_WIRE cmd = .ok (.int w)) (hw32 : w < 4294967296)
    (h1 : alookupS "recv_message_size" fs = some (.int sz)) (h2 : alookupS "send_idx" fs = some (.int idx))
    (h3 : alookupS "_maxdata" fs = some (.int md))
    (h2' : alookupS "send_idx" fs' = some (.int idx')) (hb' : alookupS "send_buffer" fs' = some (.bytearray buf'))
    (hadd : ¬ idx + (sz + data.length) < md) :
    Src.AdbDeviceAsync_filesync_send_eff0_args cmd info (.obj cls fs) (.bytes data) (optV size)
      = .ok (.tuple [.str "request", .str "_filesync_flush", info, .obj cls fs])
    ∧ Src.AdbDeviceAsync_filesync_send_fn cmd info (.obj cls fs) (.bytes data) (optV size) (.obj cls' fs')
      = (if size.getD data.length < 4294967296 then .ok (.tuple [.none, .obj cls' (sendUpdate fs' idx' buf' (fsRecord w (size.getD data.length) data))]) else .error .structError) := by
  cases size with
  | none =>
    by_cases hs : data.length < 4294967296 <;> constructor <;>
    simp [Src.AdbDeviceAsync_filesync_send_fn, Src.AdbDeviceAsync_filesync_send_eff0_args, pysimp, optV, Py.isinstance_bytes_bytes, Py.len_bytes, C07_src_can_add cls fs sz idx md _ h1 h2 h3, hadd, hw,
      Py.structPack_2I _ _ hw32, hs, h2', hb', Py.add_bytes_bytes, Py.setSlice_nat, -List.length_append, sendUpdate, fsRecord, splice]
  | some s =>
    by_cases hs : s < 4294967296 <;> constructor <;>
    simp [Src.AdbDeviceAsync_filesync_send_fn, Src.AdbDeviceAsync_filesync_send_eff0_args, pysimp, optV, Py.isinstance_bytes_bytes, Py.len_bytes, C07_src_can_add cls fs sz idx md _ h1 h2 h3, hadd, hw,
      Py.structPack_2I _ _ hw32, hs, h2', hb', Py.add_bytes_bytes, Py.setSlice_nat, -List.length_append, sendUpdate, fsRecord, splice]

theorem Py.isinstance_str_bytes (x : String) : Py.isinstance (.str x) "bytes" = .ok (.bool false) := rfl
theorem Py.encodeUtf8_str (x : String) : Py.encodeUtf8 (.str x) = .ok (.bytes x.toUTF8.toList) := rfl

/-- `_filesync_send` with a `str` argument (device paths): it is encoded as UTF-8 FIRST, so the default `size`, the flush decision and the record are those of the encoded bytes —
    a `str` behaves exactly like its UTF-8 bytes, for every object, size argument and flush result (both twins). -/
theorem C07_src_send_str (cmd info fi eff0 sizeV : Py.Val) (x : String) :
    Src.AdbDevice_filesync_send_fn cmd info fi (.str x) sizeV eff0 = Src.AdbDevice_filesync_send_fn cmd info fi (.bytes x.toUTF8.toList) sizeV eff0
    ∧ Src.AdbDeviceAsync_filesync_send_fn cmd info fi (.str x) sizeV eff0 = Src.AdbDeviceAsync_filesync_send_fn cmd info fi (.bytes x.toUTF8.toList) sizeV eff0
    ∧ Src.AdbDevice_filesync_send_eff0_args cmd info fi (.str x) sizeV = Src.AdbDevice_filesync_send_eff0_args cmd info fi (.bytes x.toUTF8.toList) sizeV
    ∧ Src.AdbDeviceAsync_filesync_send_eff0_args cmd info fi (.str x) sizeV = Src.AdbDeviceAsync_filesync_send_eff0_args cmd info fi (.bytes x.toUTF8.toList) sizeV := by
  refine ⟨?_, ?_, ?_, ?_⟩ <;>
    simp only [Src.AdbDevice_filesync_send_fn, Src.AdbDeviceAsync_filesync_send_fn, Src.AdbDevice_filesync_send_eff0_args, Src.AdbDeviceAsync_filesync_send_eff0_args,
      Py.isinstance_str_bytes, Py.isinstance_bytes_bytes, Py.encodeUtf8_str, pysimp, Bool.not_false, Bool.not_true, if_true, if_false, ite_true, ite_false, Bool.false_eq_true]

/-- The model side of the same step: when the record may be added and its size fits 32 bits, the model's `fsSend` appends exactly `fsRecord id.wire size data` to the live
    prefix and does nothing else — the statement `spliced_live_prefix` makes about the source's buffer. -/
theorem C07_model_fsSend_record (id : SyncId) (t : Txn) (fi : FsInfo) (data : Bytes) (size : Option Nat) (w : World)
    (hadd : fi.canAdd data.length = true) (hs : size.getD data.length < 4294967296) :
    fsSend id t fi data size w = (.ok { fi with sendBuf := fi.sendBuf ++ fsRecord id.wire (size.getD data.length) data }, w) := by
  have hs' : ¬ size.getD data.length ≥ 4294967296 := by omega
  simp [fsSend, hadd, hs', fsRecord, bind, pure, M.bind, M.pure]

/-! ### Non-vacuity -/
example : Src.AdbDevice_filesync_send_fn (.bytes (ascii "DONE")) .none
    (.obj "_FileSyncTransactionInfo" [("recv_message_size", .int 8), ("send_idx", .int 2), ("_maxdata", .int 64), ("send_buffer", .bytearray (List.replicate 64 0))])
    (.bytes []) (.int 1700000000) .none
    = .ok (.tuple [.none, .obj "_FileSyncTransactionInfo" (sendUpdate [("recv_message_size", .int 8), ("send_idx", .int 2), ("_maxdata", .int 64), ("send_buffer", .bytearray (List.replicate 64 0))]
        2 (List.replicate 64 0) (fsRecord SyncId.DONE.wire 1700000000 []))]) := by
  have h := (C07_src_send_noflush_sync "_FileSyncTransactionInfo" [("recv_message_size", .int 8), ("send_idx", .int 2), ("_maxdata", .int 64), ("send_buffer", .bytearray (List.replicate 64 0))]
    (.bytes (ascii "DONE")) .none .none SyncId.DONE.wire 8 2 64 (List.replicate 64 0) [] (some 1700000000) (src_fsIdToWire_get .DONE) (SyncId.wire_lt _) rfl rfl rfl rfl (by decide)).1
  simpa [optV] using h

end Adb
