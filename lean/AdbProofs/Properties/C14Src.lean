import AdbProofs.Lemmas.SrcEnc
import AdbModel.Generated.Src
/-
  C14 (tie to the source, by proof) — `Src.AdbDevice_open_alloc_id` / `Src.AdbDeviceAsync_open_alloc_id` are the translations of the statements
  of `_open`'s `with self._local_id_lock:` block that update the counter (extracted from the CURRENT source on every run by
  harness/pytrans.py: the leading statements of the block that mention only `self`; the translator also checks that nothing after them in the
  block assigns the counter). They compute exactly the model's `nextId`, so the closed form / range / window-distinctness theorems of C14.lean
  are statements about the increment-and-wrap the source contains now. (That the block runs under the lock, and that the id it leaves in the
  counter is the one the OPEN carries, is the generated lock facts + correspondence part of C14, not this file.)
  Only property theorems and non-vacuity examples live here.
-/
set_option linter.unusedSimpArgs false
namespace Adb
open Py

/-- Sync class: on an object whose `_local_id` is the natural number `c`, the source's id-allocation statements leave `_local_id = nextId c`
    and change no other attribute. -/
theorem C14_src_alloc_sync (cls : String) (fs : List (String × Py.Val)) (c : Nat) (h : alookupS "_local_id" fs = some (.int c)) :
    ∃ fs', Src.AdbDevice_open_alloc_id (.obj cls fs) = .ok (Py.Val.none, .obj cls fs')
      ∧ alookupS "_local_id" fs' = some (.int (nextId c)) ∧ ∀ k, k ≠ "_local_id" → alookupS k fs' = alookupS k fs := by
  by_cases hw : c + 1 = 4294967296
  · have e1 : (c : Int) + 1 = 4294967296 := by omega
    have e2 : (c : Int) = 4294967295 := by omega
    simp [Src.AdbDevice_open_alloc_id, pysimp, h, nextId, hw, e1, e2]
    intro k hk; simp [hk]
  · have e1 : ¬ (c : Int) + 1 = 4294967296 := by omega
    have e2 : ¬ (c : Int) = 4294967295 := by omega
    simp [Src.AdbDevice_open_alloc_id, pysimp, h, nextId, hw, e1, e2]
    intro k hk; simp [hk]

/-- Async class: the same statement for `AdbDeviceAsync._open`. -/
theorem C14_src_alloc_async (cls : String) (fs : List (String × Py.Val)) (c : Nat) (h : alookupS "_local_id" fs = some (.int c)) :
    ∃ fs', Src.AdbDeviceAsync_open_alloc_id (.obj cls fs) = .ok (Py.Val.none, .obj cls fs')
      ∧ alookupS "_local_id" fs' = some (.int (nextId c)) ∧ ∀ k, k ≠ "_local_id" → alookupS k fs' = alookupS k fs := by
  by_cases hw : c + 1 = 4294967296
  · have e1 : (c : Int) + 1 = 4294967296 := by omega
    have e2 : (c : Int) = 4294967295 := by omega
    simp [Src.AdbDeviceAsync_open_alloc_id, pysimp, h, nextId, hw, e1, e2]
    intro k hk; simp [hk]
  · have e1 : ¬ (c : Int) + 1 = 4294967296 := by omega
    have e2 : ¬ (c : Int) = 4294967295 := by omega
    simp [Src.AdbDeviceAsync_open_alloc_id, pysimp, h, nextId, hw, e1, e2]
    intro k hk; simp [hk]

/-! ### Non-vacuity: wrap-around and the ordinary step on concrete objects -/
example : ∃ fs', Src.AdbDevice_open_alloc_id (.obj "AdbDevice" [("_local_id", .int 4294967295), ("_maxdata", .int 4096)]) = .ok (Py.Val.none, .obj "AdbDevice" fs')
    ∧ alookupS "_local_id" fs' = some (.int 1) ∧ alookupS "_maxdata" fs' = some (.int 4096) := by
  obtain ⟨fs', h1, h2, h3⟩ := C14_src_alloc_sync "AdbDevice" [("_local_id", .int 4294967295), ("_maxdata", .int 4096)] 4294967295 rfl
  exact ⟨fs', h1, h2, by rw [h3 "_maxdata" (by decide)]; rfl⟩
example : ∃ fs', Src.AdbDeviceAsync_open_alloc_id (.obj "AdbDeviceAsync" [("_local_id", .int 41)]) = .ok (Py.Val.none, .obj "AdbDeviceAsync" fs')
    ∧ alookupS "_local_id" fs' = some (.int 42) := by
  obtain ⟨fs', h1, h2, _⟩ := C14_src_alloc_async "AdbDeviceAsync" [("_local_id", .int 41)] 41 rfl
  exact ⟨fs', h1, h2⟩

end Adb
