import AdbProofs.Lemmas.Tcp
/-
  C18 — TCP transports honour the transport contract on real sockets.

  Two halves.
  (a) The transport methods (`Tcp.close/connect/bulkRead/bulkWrite`, one definition for the sync and the async
      class, distinguished by the flag `async`) are wrappers over an abstract socket `S : Sock σ`.  Everything
      we assume about Linux sockets / asyncio streams is the HYPOTHESIS `hS : SockSem S` (satisfiable:
      `simSock_sem`).  Under it the wrappers keep the contract.
  (b) `Tcp.accepts` is the contract as an executable check of a trace OBSERVED on a real loopback connection
      (harness/units/c18.py sends every recorded trace to it).  `C18_acceptor_sound` says what acceptance means,
      in terms of plain list functions over the trace.
-/
namespace Adb
open Tcp

variable {σ : Type}

/-- An accepted trace satisfies the contract, clause by clause.  `pre` ranges over the moments of the trace;
    `sinceConnect pre` is the part of `pre` that belongs to the current connection.
    (1) no read returns more than requested;
    (2) at every moment, what reads have returned so far is a prefix of what the peer had begun to write so far
        (in order, nothing lost in the middle, nothing duplicated, nothing invented);
    (3) a read times out only if every byte whose write the peer had COMPLETED before the read STARTED had
        already been returned by earlier reads;
    (4) every read result/timeout closes a read that was started with the same size, with only peer activity
        in between (so (3) speaks about every timeout in the trace);
    (5) `b''` for a non-zero request only after the peer began closing its side (a timeout is never swallowed);
    (6) reads and writes happen only while connected (after `connect`, not after `close`);
    (7) a write count never exceeds the data length and is non-zero for non-empty data. -/
theorem C18_acceptor_sound (tr : List Ev) (h : accepts tr = true) :
    (∀ n bs, Ev.read n bs ∈ tr → bs.length ≤ n) ∧
    (∀ pre post, tr = pre ++ post → readBytes (sinceConnect pre) <+: writtenBytes (sinceConnect pre)) ∧
    (∀ pre n mid post, tr = pre ++ Ev.readStart n :: (mid ++ Ev.readTimeout n :: post) →
        (∀ e ∈ mid, e.isPeer = true) →
        completedLen (sinceConnect pre) ≤ (readBytes (sinceConnect pre)).length) ∧
    (∀ pre e post n, tr = pre ++ e :: post → ((∃ bs, e = Ev.read n bs) ∨ e = Ev.readTimeout n) →
        ∃ p1 mid, pre = p1 ++ Ev.readStart n :: mid ∧ ∀ x ∈ mid, x.isPeer = true) ∧
    (∀ pre n post, tr = pre ++ Ev.read n [] :: post → n = 0 ∨ Ev.peerEof ∈ sinceConnect pre) ∧
    (∀ pre e post, tr = pre ++ e :: post → e.isIO = true → connectedAfter pre = true) ∧
    (∀ len k, Ev.write len k ∈ tr → k ≤ len ∧ (len ≠ 0 → k ≠ 0)) := by
  refine ⟨?_, ?_, ?_, ?_, ?_, ?_, ?_⟩
  · intro n bs hmem
    obtain ⟨pre, post, hsplit⟩ := List.append_of_mem hmem
    obtain ⟨s, s', _, hstep⟩ := accepted_at h hsplit
    exact (step_read_ok hstep).2.2.1
  · intro pre post hsplit
    obtain ⟨s, hI⟩ := accepted_prefix h hsplit
    rw [hI.stream]
    exact List.prefix_append _ _
  · intro pre n mid post hsplit hmid
    have hsplit' : tr = (pre ++ Ev.readStart n :: mid) ++ Ev.readTimeout n :: post := by
      rw [hsplit]; simp
    obtain ⟨s, s', hI, hstep⟩ := accepted_at h hsplit'
    obtain ⟨_, ⟨d0, hp, hd⟩, _⟩ := step_readTimeout_ok hstep
    obtain ⟨p1, mid', hpre, hmid', hd0, hgot⟩ := hI.pend n d0 hp
    -- the start found by the invariant is the one named in the statement: both are followed by peer events only
    have hsame : p1 = pre ∧ mid' = mid :=
      split_unique p1 pre mid' mid (Ev.readStart n) (Ev.readStart n) rfl rfl hmid' hmid hpre.symm
    obtain ⟨rfl, rfl⟩ := hsame
    rw [← hgot, ← hd0]
    exact hd
  · intro pre e post n hsplit he
    obtain ⟨s, s', hI, hstep⟩ := accepted_at h hsplit
    rcases he with ⟨bs, rfl⟩ | rfl
    · obtain ⟨_, ⟨d0, hp⟩, _⟩ := step_read_ok hstep
      obtain ⟨p1, mid, h1, h2, _⟩ := hI.pend n d0 hp
      exact ⟨p1, mid, h1, h2⟩
    · obtain ⟨_, ⟨d0, hp, _⟩, _⟩ := step_readTimeout_ok hstep
      obtain ⟨p1, mid, h1, h2, _⟩ := hI.pend n d0 hp
      exact ⟨p1, mid, h1, h2⟩
  · intro pre n post hsplit
    obtain ⟨s, s', hI, hstep⟩ := accepted_at h hsplit
    rcases (step_read_ok hstep).2.2.2.2.1 rfl with h0 | hc
    · exact Or.inl h0
    · exact Or.inr (hI.eofb.mp hc)
  · intro pre e post hsplit hio
    obtain ⟨s, s', hI, hstep⟩ := accepted_at h hsplit
    rw [← hI.open_eq]
    cases e with
    | readStart n => exact (step_readStart_ok hstep).1
    | read n bs => exact (step_read_ok hstep).1
    | readTimeout n => exact (step_readTimeout_ok hstep).1
    | write len k => exact (step_write_ok hstep).1
    | peerWrite bs => simp [Ev.isIO] at hio
    | peerDone => simp [Ev.isIO] at hio
    | peerEof => simp [Ev.isIO] at hio
    | close => simp [Ev.isIO] at hio
    | connect => simp [Ev.isIO] at hio
  · intro len k hmem
    obtain ⟨pre, post, hsplit⟩ := List.append_of_mem hmem
    obtain ⟨s, s', _, hstep⟩ := accepted_at h hsplit
    obtain ⟨_, _, hk, hk0, _⟩ := step_write_ok hstep
    exact ⟨hk, hk0⟩

/-- `close(); close()` is always acceptable: whenever a trace ending in `close` is accepted, so is the trace
    with a second `close` appended. -/
theorem C18_acceptor_close_twice (tr : List Ev) (h : accepts (tr ++ [Ev.close]) = true) :
    accepts (tr ++ [Ev.close, Ev.close]) = true := by
  obtain ⟨sf, hsf⟩ := (accepts_iff _).mp h
  obtain ⟨s1, s2, h1, h2, h3⟩ := run_split hsf
  obtain ⟨hp, rfl⟩ := step_close_ok h2
  apply (accepts_iff _).mpr
  refine ⟨{ s1 with isOpen := false }, ?_⟩
  rw [run_append, h1]
  simp [run, step, hp]

/-- Under the socket assumptions, a `bulk_read` (sync or async) never returns more than `numbytes` bytes. -/
theorem C18_read_le_requested (S : Sock σ) (hS : SockSem S) (async : Bool) (w w' : σ) (s : TState)
    (n : Nat) (t : Timeout) (bs : Bytes) (h : bulkRead S async w s n t = (w', .data bs)) :
    bs.length ≤ n :=
  (readContract hS async).le_requested w s n t w' bs h

/-- Under the socket assumptions, for ANY sequence of `bulk_read` calls (any sizes, any timeouts, any
    interleaving of results and timeouts, however the socket fragments): the bytes returned, in call order,
    followed by what is still buffered afterwards, are exactly what was buffered at the beginning followed by
    what the peer wrote meanwhile.  So the results are a prefix of the peer's stream (in order, no duplication)
    and the rest of it is still there (no loss). -/
theorem C18_in_order_no_loss (S : Sock σ) (hS : SockSem S) (async : Bool) (s : TState) (c : SockId)
    (hc : s.conn = some c) (calls : List (Nat × Timeout)) (w wf : σ) (outs : List RdRes)
    (h : runReads S async s w calls = (wf, outs)) :
    ∃ peerLater : Bytes,
      dataOf outs ++ S.buffered wf c = S.buffered w c ++ peerLater ∧
      dataOf outs <+: S.buffered w c ++ peerLater := by
  obtain ⟨later, hl⟩ := runReads_sem hS async s c hc calls w wf outs h
  exact ⟨later, hl, ⟨S.buffered wf c, hl⟩⟩

/-- A `TcpTimeoutException` from `bulk_read` happens only when nothing was buffered, -/
theorem C18_timeout_only_when_nothing (S : Sock σ) (hS : SockSem S) (async : Bool) (w w' : σ) (s : TState)
    (c : SockId) (hc : s.conn = some c) (n : Nat) (t : Timeout)
    (h : bulkRead S async w s n t = (w', .timeout)) :
    S.buffered w c = [] ∧ ∃ d, t = some d ∧ S.now w' = S.now w + d := by
  obtain ⟨h1, _, h3⟩ := bulkRead_timeout_sem hS hc h
  exact ⟨h1, h3⟩

/-- … it leaves the buffered stream unchanged (it consumes nothing), so later data is not lost: by
    `C18_in_order_no_loss` the following reads continue exactly where the stream stood. -/
theorem C18_timeout_keeps_data (S : Sock σ) (hS : SockSem S) (async : Bool) (w w' : σ) (s : TState)
    (c : SockId) (hc : s.conn = some c) (n : Nat) (t : Timeout)
    (h : bulkRead S async w s n t = (w', .timeout)) :
    S.buffered w' c = S.buffered w c := by
  obtain ⟨h1, h2, _⟩ := bulkRead_timeout_sem hS hc h
  rw [h1, h2]

/-- `close` is idempotent: closing a closed transport changes neither the transport nor the world. -/
theorem C18_close_idempotent (S : Sock σ) (w : σ) (s : TState) :
    close S (close S w s).1 (close S w s).2 = close S w s ∧ (close S w s).2.conn = none := by
  unfold close
  cases hc : s.conn with
  | none => simp [hc]
  | some c => simp

/-- A closed transport can connect again: if the socket layer delivers a connection, the object holds it, is in
    non-blocking mode iff a (non-zero) timeout was given, and reads and writes are possible again (they end in data /
    a count / a timeout, never in the "no connection" failure).  If connecting fails the object stays closed. -/
theorem C18_reconnect (S : Sock σ) (async : Bool) (w : σ) (s : TState) (t : Timeout) :
    let w1 := (close S w s).1
    let s1 := (close S w s).2
    let r := connect S w1 s1 t
    (∀ c, (S.openConn w1 t).2 = some c →
        r.2.2 = true ∧ r.2.1 = { conn := some c, nonblocking := t.truthy } ∧
        (∀ w2 n t2, (bulkRead S async w2 r.2.1 n t2).2 ≠ .notConnected) ∧
        (∀ w2 data t2, (bulkWrite S async w2 r.2.1 data t2).2 ≠ .notConnected)) ∧
    ((S.openConn w1 t).2 = none → r.2.2 = false ∧ r.2.1.conn = none) := by
  intro w1 s1 r
  have hs1 : s1.conn = none := (C18_close_idempotent S w s).2
  constructor
  · intro c hopen
    have hr : r = ((S.openConn w1 t).1, { conn := some c, nonblocking := t.truthy }, true) := by
      show connect S w1 s1 t = _
      unfold connect
      cases ho : S.openConn w1 t with
      | mk w' oc =>
        rw [ho] at hopen
        simp only at hopen
        subst hopen
        rfl
    rw [hr]
    refine ⟨rfl, rfl, ?_, ?_⟩
    · intro w2 n t2
      exact bulkRead_connected rfl
    · intro w2 data t2
      exact bulkWrite_connected rfl
  · intro hopen
    have hr : r = ((S.openConn w1 t).1, s1, false) := by
      show connect S w1 s1 t = _
      unfold connect
      cases ho : S.openConn w1 t with
      | mk w' oc =>
        rw [ho] at hopen
        simp only at hopen
        subst hopen
        rfl
    rw [hr]
    exact ⟨rfl, hs1⟩

/-- What a `bulk_write` count means: exactly the first `k` bytes of `data` were handed to the socket, `k ≤ len`,
    and `k ≥ 1` for non-empty data.  The sync transport may report `k < len` (truthfully); the async transport
    always reports `len`, and has queued all of `data` even when it raises the timeout. -/
theorem C18_write_count_truthful (S : Sock σ) (hS : SockSem S) (async : Bool) (w w' : σ) (s : TState)
    (c : SockId) (hc : s.conn = some c) (data : Bytes) (t : Timeout) :
    (∀ k, bulkWrite S async w s data t = (w', .count k) →
        k ≤ data.length ∧ (data ≠ [] → 1 ≤ k) ∧ S.sent w' c = S.sent w c ++ data.take k ∧
        (async = true → k = data.length)) ∧
    (bulkWrite S async w s data t = (w', .timeout) →
        S.sent w' c = S.sent w c ++ (if async then data else [])) := by
  unfold bulkWrite
  simp only [hc]
  cases async with
  | true =>
    simp only [if_true]
    cases hw : S.sendAll w c data t with
    | mk w1 r =>
      have hsent := hS.sendall_sent _ _ _ _ _ _ hw
      cases r with
      | true =>
        refine ⟨?_, by simp⟩
        intro k hk
        simp only [Prod.mk.injEq, WrRes.count.injEq] at hk
        obtain ⟨rfl, rfl⟩ := hk
        refine ⟨Nat.le_refl _, ?_, by simp [hsent], fun _ => rfl⟩
        intro hd
        exact List.length_pos_iff.mpr hd
      | false =>
        refine ⟨by simp, ?_⟩
        intro hk
        simp only [Prod.mk.injEq, and_true] at hk
        subst hk
        exact hsent
  | false =>
    simp only [Bool.false_eq_true, if_false]
    cases hw : S.waitWritable w c t with
    | mk w1 r =>
      have hws := hS.waitw_sent _ _ _ _ _ hw
      cases r with
      | true =>
        cases hsd : S.send w1 c data with
        | mk w2 k2 =>
          obtain ⟨h1, h2, h3⟩ := hS.send_count _ _ _ _ _ hsd
          refine ⟨?_, by simp⟩
          intro k hk
          simp only [hsd, Prod.mk.injEq, WrRes.count.injEq] at hk
          obtain ⟨rfl, rfl⟩ := hk
          exact ⟨h1, h2, by rw [h3, hws], by simp⟩
      | false =>
        refine ⟨by simp, ?_⟩
        intro hk
        simp only [Prod.mk.injEq, and_true] at hk
        subst hk
        simpa using hws

/-- Both transports satisfy the same read contract.  They are modelled by ONE function `bulkRead S async` with a
    flag; `close`, `connect` do not depend on the flag at all; the two `bulk_read`s are literally equal except for
    a zero-length request (where `StreamReader.read(0)` returns `b''` without waiting), and both instances
    satisfy `ReadContract` (≤ requested; removes exactly the returned prefix; a timeout only on an empty buffer,
    after the full timeout, consuming nothing; never "not connected" while connected). -/
theorem C18_sync_async_same_contract (S : Sock σ) (hS : SockSem S) :
    ReadContract S (bulkRead S false) ∧ ReadContract S (bulkRead S true) ∧
    (∀ w s n t, n ≠ 0 → bulkRead S true w s n t = bulkRead S false w s n t) := by
  refine ⟨readContract hS false, readContract hS true, ?_⟩
  intro w s n t hn
  unfold bulkRead
  have : (n == 0) = false := by simp [hn]
  simp [this]

/-! ### Non-vacuity -/

/-- the socket assumptions are satisfiable (by a socket that fragments and times out) -/
example : SockSem simSock := simSock_sem

/-- an accepted trace with fragmentation (a 3-byte and a 2-byte peer write are returned as 1 + 2 + 2 bytes, the first
    read overlapping the write), a timeout on an idle connection, data after the timeout, EOF, and close twice -/
example : accepts [.connect, .write 4 4, .readStart 1, .peerWrite [1, 2, 3], .read 1 [1], .peerDone,
    .peerWrite [4, 5], .peerDone, .readStart 2, .read 2 [2, 3], .readStart 4096, .read 4096 [4, 5],
    .readStart 24, .readTimeout 24, .peerWrite [6], .peerDone, .readStart 24, .read 24 [6],
    .peerEof, .readStart 24, .read 24 [], .close, .close, .connect, .readStart 1, .readTimeout 1, .close] = true := by decide

/-- rejected: a duplicated byte -/
example : accepts [.connect, .peerWrite [1, 2], .peerDone, .readStart 1, .read 1 [1], .readStart 1, .read 1 [1]] = false := by decide

/-- rejected: a lost byte; an over-long result; a timeout although a completed write was undelivered; a swallowed
    timeout (`b''` without EOF); a read after close; a zero write count -/
example : accepts [.connect, .peerWrite [1, 2, 3], .readStart 1, .read 1 [1], .readStart 1, .read 1 [3]] = false := by decide
example : accepts [.connect, .peerWrite [1, 2, 3], .readStart 2, .read 2 [1, 2, 3]] = false := by decide
example : accepts [.connect, .peerWrite [1], .peerDone, .readStart 2, .readTimeout 2] = false := by decide
example : accepts [.connect, .readStart 2, .read 2 []] = false := by decide
example : accepts [.connect, .close, .readStart 2] = false := by decide
example : accepts [.connect, .write 3 0] = false := by decide

/-- … but a timeout is fine when the write had only begun (not completed) before the read started -/
example : accepts [.connect, .peerWrite [1], .readStart 2, .readTimeout 2, .peerDone, .readStart 2, .read 2 [1]] = true := by decide

/-- the model wrappers on the concrete socket: the peer writes `[1,2,3]`, stays idle for one timeout, writes `[4]`;
    the socket moves at most 2 bytes at a time.  Reads: 2 bytes, 1 byte, a timeout that costs its full 50 ticks,
    then the later byte. -/
example : runReads simSock false { conn := some 0 } { script := [[1, 2, 3], [], [4]], cap := 1 }
      [(4096, some 50), (4096, some 50), (1, some 50), (24, some 50)]
    = ({ now := 50, cap := 1 }, [.data [1, 2], .data [3], .timeout, .data [4]]) := by decide

/-- reconnect on the concrete socket: close, close, connect gives a transport that reads -/
example : (connect simSock (close simSock (close simSock ({} : SimWorld) { conn := some 0 }).1 {}).1 {} (some 10)).2
    = ({ conn := some 0, nonblocking := true }, true) := by decide

end Adb
