import AdbProofs.Lemmas.SrcFsRead
/-
  C10 (tie to the source, by proof) — `AdbDevice._filesync_read` (both twins). harness/pytrans.py turns the CURRENT source of that method into a pure function by
  making the RESULTS of its three calls parameters (`eff0` = `_filesync_flush`, `eff1` = the `recv_message_size` header bytes from `_filesync_read_buffered`,
  `eff2` = the payload bytes from the second `_filesync_read_buffered`). The theorems say that, on header bytes `hdr` and payload bytes `data`, the source classifies
  the record exactly like the model's `fsRead` does (`recOf`): `KeyError` for an unknown id word, `AdbCommandFailureException` for an unexpected FAIL,
  `InvalidResponseError` for any other unexpected id, STAT carries no payload and all remaining header words, every other id carries the payload and the header
  words between the id and the length.
  Only property theorems and non-vacuity examples live here.
-/
set_option linter.unusedSimpArgs false
namespace Adb
open Py

/-- Sync-record classification (sync class): on `recv_message_size` header bytes `hdr` and payload bytes `data`, the source's `_filesync_read` (effects as
    parameters; whether or not the send buffer had to be flushed first) returns exactly the model's `recOf`: `KeyError` for an unknown id word,
    `AdbCommandFailureException` for a FAIL that was not expected, `InvalidResponseError` for any other unexpected id, `(id, header[1:], None)` for STAT and
    `(id, header[1:-1], data)` for every other expected id. -/
theorem C10_src_filesync_read_sync (cls : String) (fs : List (String × Py.Val)) (f : SyncFmt) (expected : List SyncId) (info eff0 : Py.Val) (k : Nat) (hdr data : Bytes)
    (hk : Py.alookupS "send_idx" fs = some (.int k)) (hf : Py.alookupS "recv_message_format" fs = some f.pyFormat) (hlen : hdr.length = f.size) :
    Src.AdbDevice_filesync_read_fn (encIds expected) info (.obj cls fs) eff0 (.bytearray hdr) (.bytearray data)
      = (match recOf f expected hdr data with
         | .ok (cid, fields, none)   => .ok (.tuple [.bytes cid.idBytes, .tuple (fields.map fun (n : Nat) => .int n), .none])
         | .ok (cid, fields, some d) => .ok (.tuple [.bytes cid.idBytes, .tuple (fields.map fun (n : Nat) => .int n), .bytearray d])
         | .error (.adbCommandFailure _) => .error .adbCommandFailure
         | .error .invalidResponse => .error .invalidResponse
         | .error _ => .error .keyError) := by
  have hl := unpackWords_syncFmt_length f hdr hlen
  simp only [Src.AdbDevice_filesync_read_fn, pysimp, hk, hf, structUnpack_syncFmt f hdr hlen, recOf, ite_self]
  generalize Adb.unpackWords (f.size / 4) hdr = ws at hl ⊢
  match ws, hl with
  | w0 :: w1 :: rest, _ =>
    simp only [List.map_cons, getItem_tuple_zero, src_fsWireToId_get, List.headD_cons, pysimp]
    cases hc : SyncId.ofWire? w0 with
    | none => simp [pysimp]
    | some cid =>
      simp only [pysimp, neV_syncId_STAT, notInV_syncIds, eqV_syncId_FAIL, sliceTL_tuple_1_0, sliceTL_tuple_1_1]
      by_cases hs : cid = SyncId.STAT <;> by_cases he : expected.contains cid = true <;> by_cases hfl : cid = SyncId.FAIL <;>
        simp_all [pysimp, List.map_dropLast]

/-- Sync-record classification (async twin): the same. -/
theorem C10_src_filesync_read_async (cls : String) (fs : List (String × Py.Val)) (f : SyncFmt) (expected : List SyncId) (info eff0 : Py.Val) (k : Nat) (hdr data : Bytes)
    (hk : Py.alookupS "send_idx" fs = some (.int k)) (hf : Py.alookupS "recv_message_format" fs = some f.pyFormat) (hlen : hdr.length = f.size) :
    Src.AdbDeviceAsync_filesync_read_fn (encIds expected) info (.obj cls fs) eff0 (.bytearray hdr) (.bytearray data)
      = (match recOf f expected hdr data with
         | .ok (cid, fields, none)   => .ok (.tuple [.bytes cid.idBytes, .tuple (fields.map fun (n : Nat) => .int n), .none])
         | .ok (cid, fields, some d) => .ok (.tuple [.bytes cid.idBytes, .tuple (fields.map fun (n : Nat) => .int n), .bytearray d])
         | .error (.adbCommandFailure _) => .error .adbCommandFailure
         | .error .invalidResponse => .error .invalidResponse
         | .error _ => .error .keyError) := by
  have hl := unpackWords_syncFmt_length f hdr hlen
  simp only [Src.AdbDeviceAsync_filesync_read_fn, pysimp, hk, hf, structUnpack_syncFmt f hdr hlen, recOf, ite_self]
  generalize Adb.unpackWords (f.size / 4) hdr = ws at hl ⊢
  match ws, hl with
  | w0 :: w1 :: rest, _ =>
    simp only [List.map_cons, getItem_tuple_zero, src_fsWireToId_get, List.headD_cons, pysimp]
    cases hc : SyncId.ofWire? w0 with
    | none => simp [pysimp]
    | some cid =>
      simp only [pysimp, neV_syncId_STAT, notInV_syncIds, eqV_syncId_FAIL, sliceTL_tuple_1_0, sliceTL_tuple_1_1]
      by_cases hs : cid = SyncId.STAT <;> by_cases he : expected.contains cid = true <;> by_cases hfl : cid = SyncId.FAIL <;>
        simp_all [pysimp, List.map_dropLast]

-- tactic for the part of `fsRead` after the optional flush (used twice in `C10_model_fsRead_uses_recOf`)
set_option hygiene false in
local macro "fsread_tail" fiA:ident wA:ident : tactic => `(tactic| (
  cases h1 : fsReadBuffered (SyncFmt.size (FsInfo.fmt $fiA)) t $fiA $wA with
  | mk r1 w1 =>
    cases r1 with
    | error e => simp [M.bind, h1]
    | ok p =>
      obtain ⟨hdr, fi1⟩ := p
      simp only [fsPayloadLen, recOf, M.bind, h1]
      cases hc : SyncId.ofWire? ((Adb.unpackWords (fi1.fmt.size / 4) hdr).headD 0) with
      | none => simp [hc, M.throw, recResult]
      | some cid =>
        by_cases hs : cid = SyncId.STAT
        · by_cases he : expected.contains cid = true <;> simp_all [pure, M.pure, M.bind, M.throw, recResult]
        · simp only [hs, hc, ite_false, ne_eq, not_false_eq_true, ite_true]
          cases h2 : fsReadBuffered ((Adb.unpackWords (fi1.fmt.size / 4) hdr).getLastD 0) t fi1 w1 with
          | mk r2 w2 =>
            cases r2 with
            | error e => simp_all [M.bind]
            | ok q =>
              obtain ⟨data, fi2⟩ := q
              by_cases he : expected.contains cid = true <;> by_cases hfl : cid = SyncId.FAIL <;>
                simp_all [pure, M.pure, M.bind, M.throw, recResult]))

/-- The model's `fsRead` is: flush iff the send buffer is non-empty; read `fmt.size` header bytes; read `header[-1]` payload bytes iff the header names a known id
    other than STAT (`fsPayloadLen`); then the pure `recOf` on what was read. -/
theorem C10_model_fsRead_uses_recOf (expected : List SyncId) (t : Txn) (fi : FsInfo) (w : World) :
    fsRead expected t fi w =
      match (if !fi.sendBuf.isEmpty then fsFlush t fi else (pure fi : M FsInfo)) w with
      | (.error e, w0) => (.error e, w0)
      | (.ok fi0, w0) =>
        match fsReadBuffered fi0.fmt.size t fi0 w0 with
        | (.error e, w1) => (.error e, w1)
        | (.ok (hdr, fi1), w1) =>
          match fsPayloadLen fi1.fmt hdr with
          | none => (recResult (recOf fi1.fmt expected hdr []) fi1, w1)
          | some n =>
            match fsReadBuffered n t fi1 w1 with
            | (.error e, w2) => (.error e, w2)
            | (.ok (data, fi2), w2) => (recResult (recOf fi1.fmt expected hdr data) fi2, w2) := by
  have hsplit : ((if (!fi.sendBuf.isEmpty) = true then fsFlush t fi else (pure fi : M FsInfo)) w)
      = (if (!fi.sendBuf.isEmpty) = true then fsFlush t fi w else (.ok fi, w)) := by split <;> rfl
  rw [hsplit]
  simp only [fsRead, bind]
  by_cases hb : (!fi.sendBuf.isEmpty) = true
  · simp only [hb, if_true, M.bind]
    cases h0 : fsFlush t fi w with
    | mk r0 w0 =>
      cases r0 with
      | error e => rfl
      | ok fi0 => simp only []; fsread_tail fi0 w0
  · simp only [hb, Bool.false_eq_true, if_false, M.bind, pure, M.pure]; fsread_tail fi w

/-! ### Non-vacuity: a DATA record (pull), a STAT record (no payload, three fields), a DENT record (three fields, the name length dropped), an unexpected FAIL,
    an unexpected id, an unknown id word; and the source function on a concrete transaction object (flushed and unflushed) -/
example : recOf .pull [.DATA, .DONE] (le32 SyncId.DATA.wire ++ le32 3) [1, 2, 3] = .ok (.DATA, [], some [1, 2, 3]) := by rfl
example : recOf .stat [.STAT] (le32 SyncId.STAT.wire ++ le32 33188 ++ le32 10 ++ le32 1700000000) [] = .ok (.STAT, [33188, 10, 1700000000], none) := by rfl
example : recOf .list [.DENT, .DONE] (le32 SyncId.DENT.wire ++ le32 33188 ++ le32 10 ++ le32 1700000000 ++ le32 2) [97, 98]
    = .ok (.DENT, [33188, 10, 1700000000], some [97, 98]) := by rfl
example : recOf .push [.OKAY] (le32 SyncId.FAIL.wire ++ le32 2) [97, 98] = .error (.adbCommandFailure [97, 98]) := by rfl
example : recOf .push [.OKAY] (le32 SyncId.DATA.wire ++ le32 2) [97, 98] = .error .invalidResponse := by rfl
example : recOf .stat [.DATA] (le32 SyncId.STAT.wire ++ le32 1 ++ le32 2 ++ le32 3) [] = .error .invalidResponse := by rfl
example : recOf .pull [.DATA, .DONE] (le32 0xDEADBEEF ++ le32 2) [97, 98] = .error .pyKeyError := by rfl
example : Src.AdbDevice_filesync_read_fn (encIds [.DATA, .DONE]) .none
      (.obj "_FileSyncTransactionInfo" [("send_idx", .int (0 : Nat)), ("recv_message_format", SyncFmt.pull.pyFormat)]) .none
      (.bytearray (le32 SyncId.DATA.wire ++ le32 3)) (.bytearray [1, 2, 3])
    = .ok (.tuple [.bytes SyncId.DATA.idBytes, .tuple [], .bytearray [1, 2, 3]]) := by
  rw [C10_src_filesync_read_sync "_FileSyncTransactionInfo" _ .pull [.DATA, .DONE] .none .none 0 _ _ rfl rfl rfl]; rfl
example : Src.AdbDeviceAsync_filesync_read_fn (encIds [.STAT]) .none
      (.obj "_FileSyncTransactionInfo" [("send_idx", .int (24 : Nat)), ("recv_message_format", SyncFmt.stat.pyFormat)]) .none
      (.bytearray (le32 SyncId.STAT.wire ++ le32 33188 ++ le32 10 ++ le32 1700000000)) (.bytearray [])
    = .ok (.tuple [.bytes SyncId.STAT.idBytes, .tuple [.int 33188, .int 10, .int 1700000000], .none]) := by
  rw [C10_src_filesync_read_async "_FileSyncTransactionInfo" _ .stat [.STAT] .none .none 24 _ _ rfl rfl rfl]; rfl
example : Src.AdbDevice_filesync_read_fn (encIds [.OKAY]) .none
      (.obj "_FileSyncTransactionInfo" [("send_idx", .int (0 : Nat)), ("recv_message_format", SyncFmt.push.pyFormat)]) .none
      (.bytearray (le32 SyncId.FAIL.wire ++ le32 2)) (.bytearray [97, 98]) = .error .adbCommandFailure := by
  rw [C10_src_filesync_read_sync "_FileSyncTransactionInfo" _ .push [.OKAY] .none .none 0 _ _ rfl rfl rfl]; rfl

end Adb
