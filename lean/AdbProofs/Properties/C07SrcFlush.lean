import AdbProofs.Lemmas.SrcLoops
import AdbProofs.Properties.C02Src
/-
  C07 / C10 (tie to the source, by proof; the `_filesync_flush` half of C08Src.lean's header) — the two FileSync loops of the device class, both twins, translated from the CURRENT source by harness/pytrans.py
  (`loop_method`: statements before the loop as an effect-parameterised prefix, the loop as condition / request / iteration, the statements after it as a pure suffix
  that also returns the object it mutated):
    * `_filesync_read_buffered` (C08's record reader): it keeps asking `_read_until([WRTE])` exactly while fewer than `size` bytes are buffered, appends exactly the payload it is
      handed, and finally returns exactly the first `size` buffered bytes and keeps exactly the rest — the model's `fsReadBufferedLoop` (`take` / `drop`), wherever WRTE boundaries fall;
    * `_filesync_flush` (C07's stop-and-wait, C10's F5 repair): it sends exactly one WRTE(local id, remote id) whose payload is the live prefix `send_buffer[:send_idx]`, then waits with
      `_read_until([OKAY, WRTE])`: an OKAY ends the wait, a device WRTE that overtakes it is appended to the receive buffer (not dropped), and afterwards `send_idx` is 0.
  Only property theorems live here.
-/
set_option linter.unusedSimpArgs false
namespace Adb
open Py


/-- `_filesync_flush` (sync), before the loop: exactly one message is sent, WRTE(local id, remote id) with the live prefix of the send buffer as payload. -/
theorem C07_src_flush_request_sync (icls fcls : String) (ifs ffs : List (String × Py.Val)) (l r idx : Nat) (sb : Bytes)
    (hl : alookupS "local_id" ifs = some (.int l)) (hr : alookupS "remote_id" ifs = some (.int r))
    (hs : alookupS "send_buffer" ffs = some (.bytearray sb)) (hi : alookupS "send_idx" ffs = some (.int idx)) :
    ∃ m, Src.AdbDevice_filesync_flush_pre_eff0_args (.obj icls ifs) (.obj fcls ffs)
        = .ok (.tuple [.str "request", .str "_io_manager.send", m, .obj icls ifs])
      ∧ getAttr m "command" = .ok (.int Cmd.WRTE.wire) ∧ getAttr m "arg0" = .ok (.int l) ∧ getAttr m "arg1" = .ok (.int r)
      ∧ getAttr m "data" = .ok (.bytearray (sb.take idx)) := by
  have hw : Src.const_WRTE = .bytes Cmd.WRTE.idBytes := rfl
  simp [Src.AdbDevice_filesync_flush_pre_eff0_args, pysimp, hl, hr, hs, hi, hw, Py.sliceTo, Py.natOf, Py.asInt, Py.newObj, Src.AdbMessage_init, src_idToWire_get,
    Py.setPath, Py.setAcc, Py.setAttr, Py.asetS, Py.alookupS, Py.bitxor, bind, Except.bind, pure, Except.pure]

/-- `_filesync_flush` (sync), the wait: it asks `_read_until([OKAY, WRTE])`; an OKAY ends the loop with the receive buffer untouched; any other packet's payload (a device WRTE that
    overtook the OKAY) is APPENDED to the receive buffer and the wait goes on; after the loop `send_idx` is reset to 0. -/
theorem C07_src_flush_loop_sync (cls : String) (fs : List (String × Py.Val)) (buf data : Bytes) (c0 d0 info : Py.Val) (c : Cmd)
    (hb : alookupS "recv_buffer" fs = some (.bytearray buf)) :
    Src.AdbDevice_filesync_flush_eff0_args info c0 d0 (.obj cls fs)
        = .ok (.tuple [.str "request", .str "_read_until", .list [.bytes Cmd.OKAY.idBytes, .bytes Cmd.WRTE.idBytes], info])
      ∧ Src.AdbDevice_filesync_flush_iter info c0 d0 (.obj cls fs) (.tuple [.bytes c.idBytes, .bytes data])
          = (if c = .OKAY then .ok (.tuple [.str "break", .bytes c.idBytes, .bytes data, .obj cls fs])
             else .ok (.tuple [.str "continue", .bytes c.idBytes, .bytes data, .obj cls (asetS "recv_buffer" (.bytearray (buf ++ data)) fs)]))
      ∧ Src.AdbDevice_filesync_flush_post (.obj cls fs) = .ok (.tuple [.none, .obj cls (asetS "send_idx" (.int 0) fs)]) := by
  have hw : (c.idBytes == Cmd.OKAY.idBytes) = (c == Cmd.OKAY) := by cases c <;> decide
  have ho : Src.const_OKAY = .bytes Cmd.OKAY.idBytes := rfl
  refine ⟨?_, ?_, ?_⟩
  · simp [Src.AdbDevice_filesync_flush_eff0_args, pysimp]; exact ⟨rfl, rfl⟩
  · by_cases h : c = .OKAY <;>
      simp [Src.AdbDevice_filesync_flush_iter, pysimp, hb, ho, hw, h, Py.unpackN, Py.nth, Py.add, Py.setPath, Py.setAcc, Py.setAttr, bind, Except.bind, pure, Except.pure]
  · simp [Src.AdbDevice_filesync_flush_post, pysimp, Py.setPath, Py.setAcc, Py.setAttr, bind, Except.bind, pure, Except.pure]

/-- `_filesync_flush` (async twin), before the loop: exactly one message is sent, WRTE(local id, remote id) with the live prefix of the send buffer as payload. -/
theorem C07_src_flush_request_async (icls fcls : String) (ifs ffs : List (String × Py.Val)) (l r idx : Nat) (sb : Bytes)
    (hl : alookupS "local_id" ifs = some (.int l)) (hr : alookupS "remote_id" ifs = some (.int r))
    (hs : alookupS "send_buffer" ffs = some (.bytearray sb)) (hi : alookupS "send_idx" ffs = some (.int idx)) :
    ∃ m, Src.AdbDeviceAsync_filesync_flush_pre_eff0_args (.obj icls ifs) (.obj fcls ffs)
        = .ok (.tuple [.str "request", .str "_io_manager.send", m, .obj icls ifs])
      ∧ getAttr m "command" = .ok (.int Cmd.WRTE.wire) ∧ getAttr m "arg0" = .ok (.int l) ∧ getAttr m "arg1" = .ok (.int r)
      ∧ getAttr m "data" = .ok (.bytearray (sb.take idx)) := by
  have hw : Src.const_WRTE = .bytes Cmd.WRTE.idBytes := rfl
  simp [Src.AdbDeviceAsync_filesync_flush_pre_eff0_args, pysimp, hl, hr, hs, hi, hw, Py.sliceTo, Py.natOf, Py.asInt, Py.newObj, Src.AdbMessage_init, src_idToWire_get,
    Py.setPath, Py.setAcc, Py.setAttr, Py.asetS, Py.alookupS, Py.bitxor, bind, Except.bind, pure, Except.pure]

/-- `_filesync_flush` (async twin), the wait: it asks `_read_until([OKAY, WRTE])`; an OKAY ends the loop with the receive buffer untouched; any other packet's payload (a device WRTE that
    overtook the OKAY) is APPENDED to the receive buffer and the wait goes on; after the loop `send_idx` is reset to 0. -/
theorem C07_src_flush_loop_async (cls : String) (fs : List (String × Py.Val)) (buf data : Bytes) (c0 d0 info : Py.Val) (c : Cmd)
    (hb : alookupS "recv_buffer" fs = some (.bytearray buf)) :
    Src.AdbDeviceAsync_filesync_flush_eff0_args info c0 d0 (.obj cls fs)
        = .ok (.tuple [.str "request", .str "_read_until", .list [.bytes Cmd.OKAY.idBytes, .bytes Cmd.WRTE.idBytes], info])
      ∧ Src.AdbDeviceAsync_filesync_flush_iter info c0 d0 (.obj cls fs) (.tuple [.bytes c.idBytes, .bytes data])
          = (if c = .OKAY then .ok (.tuple [.str "break", .bytes c.idBytes, .bytes data, .obj cls fs])
             else .ok (.tuple [.str "continue", .bytes c.idBytes, .bytes data, .obj cls (asetS "recv_buffer" (.bytearray (buf ++ data)) fs)]))
      ∧ Src.AdbDeviceAsync_filesync_flush_post (.obj cls fs) = .ok (.tuple [.none, .obj cls (asetS "send_idx" (.int 0) fs)]) := by
  have hw : (c.idBytes == Cmd.OKAY.idBytes) = (c == Cmd.OKAY) := by cases c <;> decide
  have ho : Src.const_OKAY = .bytes Cmd.OKAY.idBytes := rfl
  refine ⟨?_, ?_, ?_⟩
  · simp [Src.AdbDeviceAsync_filesync_flush_eff0_args, pysimp]; exact ⟨rfl, rfl⟩
  · by_cases h : c = .OKAY <;>
      simp [Src.AdbDeviceAsync_filesync_flush_iter, pysimp, hb, ho, hw, h, Py.unpackN, Py.nth, Py.add, Py.setPath, Py.setAcc, Py.setAttr, bind, Except.bind, pure, Except.pure]
  · simp [Src.AdbDeviceAsync_filesync_flush_post, pysimp, Py.setPath, Py.setAcc, Py.setAttr, bind, Except.bind, pure, Except.pure]


end Adb
