import AdbProofs.Lemmas.Handshake
/-
  C05 — the CNXN/AUTH handshake of `connect()`.

  All statements are about one call of `_AdbIOManager.connect` (`ioConnect`, no lock held) or
  `AdbDevice.connect` (`devConnect`) that starts in world `w`, ends in world `w'` with outcome `r`,
  and added the events `evs` to the trace (`w'.trace = evs ++ w.trace`, most recent first).
  `HS.transmitted evs` / `HS.delivered evs` are the messages handed to `_send` / the packets
  returned by `_read_expected_packet_from_device`, oldest first; `HS.callbacks evs` counts
  invocations of the auth callback; `HS.vis evs` is the chronological list of all events except
  `req` (a bulk_read was issued) and `skip` (an unexpected packet was discarded while waiting).
  Signers are abstract: key `k` signs `tok` as `stubSign k tok`, its public key is `stubPub k`.
-/
namespace Adb
open HS

/-- `connect()` first closes and reconnects the transport and then, before anything else is sent
    or read, sends CNXN(VERSION, MAX_ADB_DATA, b'host::<banner>\0'): whatever was transmitted
    starts with that message; it IS transmitted whenever `transport.connect()` succeeded, and when
    that failed nothing is transmitted at all. -/
theorem C05_first_message (banner : Bytes) (keys : List Nat) (authT : Timeout) (hasCb : Bool) (t : Txn)
    (w w' : World) (r : Except Err Nat) (evs : List TEv) (hl : w.locks = [])
    (hr : ioConnect banner keys authT hasCb t w = (r, w')) (he : w'.trace = evs ++ w.trace) :
    (∀ m, (transmitted evs).head? = some m →
        m = ⟨.CNXN, Generated.VERSION, Generated.MAX_ADB_DATA, ascii "host::" ++ banner ++ [0]⟩) ∧
    (canConnect w = true → ∃ rest,
        vis evs = .tclose :: .tconnect ::
          .tx ⟨.CNXN, Generated.VERSION, Generated.MAX_ADB_DATA, ascii "host::" ++ banner ++ [0]⟩ :: rest ∧
        (transmitted evs).head? =
          some ⟨.CNXN, Generated.VERSION, Generated.MAX_ADB_DATA, ascii "host::" ++ banner ++ [0]⟩) ∧
    (canConnect w = false → r = .error .transportError ∧ transmitted evs = []) := by
  obtain ⟨h1, h2⟩ := ioConnect_first hl hr he
  refine ⟨?_, ?_, ?_⟩
  · intro m hm
    cases hc : canConnect w with
    | false => rw [(h1 hc).2.2] at hm; simp at hm
    | true =>
      obtain ⟨rest, -, h4⟩ := h2 hc
      rw [h4] at hm
      simpa [cnxnMsg] using hm.symm
  · intro hc
    obtain ⟨rest, h3, h4⟩ := h2 hc
    exact ⟨rest, h3, by rw [h4]; rfl⟩
  · intro hc
    exact ⟨(h1 hc).1, (h1 hc).2.2⟩

/-- `connect()` succeeds if and only if a CNXN packet is delivered to it; that packet is then the
    LAST packet it read, every packet read before it is an AUTH challenge, and the maxdata it
    returns is that CNXN's `arg1`. When it raises, every packet it read was an AUTH challenge. -/
theorem C05_success_adopts_cnxn (banner : Bytes) (keys : List Nat) (authT : Timeout) (hasCb : Bool) (t : Txn)
    (w w' : World) (r : Except Err Nat) (evs : List TEv) (hl : w.locks = [])
    (hr : ioConnect banner keys authT hasCb t w = (r, w')) (he : w'.trace = evs ++ w.trace) :
    (∀ md, r = .ok md → ∃ ps p, delivered evs = ps ++ [p] ∧ (∀ x ∈ ps, x.cmd = .AUTH) ∧ p.cmd = .CNXN ∧ md = p.arg1) ∧
    ((∃ md, r = .ok md) ↔ ∃ p ∈ delivered evs, p.cmd = .CNXN) ∧
    (∀ e, r = .error e → ∀ x ∈ delivered evs, x.cmd = .AUTH) := by
  obtain ⟨h1, h2⟩ := ioConnect_result hl hr he
  refine ⟨h1, ?_, h2⟩
  constructor
  · rintro ⟨md, hmd⟩
    obtain ⟨ps, p, hd, -, hp, -⟩ := h1 md hmd
    exact ⟨p, by simp [hd], hp⟩
  · rintro ⟨p, hp, hc⟩
    cases r with
    | ok md => exact ⟨md, rfl⟩
    | error e =>
      have := h2 e rfl p hp
      rw [hc] at this
      cases this

/-- The signatures. With the transport connected, everything `connect()` transmits is: the CNXN
    message, then `j ≤ len(keys)` AUTH(SIGNATURE) messages where the i-th is made with the i-th key
    over the payload of the i-th packet read so far (= the most recent challenge at that moment),
    so every key is used at most once and in order, then possibly the public key, and that only
    when `j = len(keys)`. At most one packet is read per message sent (`len(delivered) ≤ j + 1 + len(tl)`)
    and every signature was preceded by its challenge (`j ≤ len(delivered)`).
    It stops at the first accepted signature: on success without public key exactly `j + 1` packets
    were read, the last of them the CNXN (see `C05_success_adopts_cnxn`). -/
theorem C05_signatures (banner : Bytes) (keys : List Nat) (authT : Timeout) (hasCb : Bool) (t : Txn)
    (w w' : World) (r : Except Err Nat) (evs : List TEv) (hl : w.locks = [])
    (hr : ioConnect banner keys authT hasCb t w = (r, w')) (he : w'.trace = evs ++ w.trace)
    (hc : canConnect w = true) :
    ∃ j tl, j ≤ keys.length ∧ j ≤ (delivered evs).length ∧ (delivered evs).length ≤ j + 1 + tl.length ∧
      transmitted evs =
        ⟨.CNXN, Generated.VERSION, Generated.MAX_ADB_DATA, ascii "host::" ++ banner ++ [0]⟩ ::
          ((List.zip (keys.take j) ((delivered evs).map (·.data))).map
              (fun kt => (⟨.AUTH, Generated.AUTH_SIGNATURE, 0, stubSign kt.1 kt.2⟩ : Msg)) ++ tl) ∧
      (tl = [] ∨ (tl = [⟨.AUTH, Generated.AUTH_RSAPUBLICKEY, 0, stubPub (keys.headD 0) ++ [0]⟩] ∧ j = keys.length)) ∧
      (∀ md, r = .ok md → tl = [] → (delivered evs).length = j + 1) :=
  ioConnect_sigs hl hr he hc

/-- Challenged without keys: if the first packet read is an AUTH packet and no key was supplied,
    `connect()` closes the transport and raises DeviceAuthError; the CNXN message is all it sent. -/
theorem C05_no_keys (banner : Bytes) (authT : Timeout) (hasCb : Bool) (t : Txn)
    (w w' : World) (r : Except Err Nat) (evs : List TEv) (hl : w.locks = [])
    (hr : ioConnect banner [] authT hasCb t w = (r, w')) (he : w'.trace = evs ++ w.trace)
    (p : Pkt) (hd : (delivered evs).head? = some p) (hp : p.cmd = .AUTH) :
    r = .error .deviceAuth ∧
      transmitted evs = [⟨.CNXN, Generated.VERSION, Generated.MAX_ADB_DATA, ascii "host::" ++ banner ++ [0]⟩] ∧
      delivered evs = [p] ∧
      vis evs = [.tclose, .tconnect,
        .tx ⟨.CNXN, Generated.VERSION, Generated.MAX_ADB_DATA, ascii "host::" ++ banner ++ [0]⟩, .deliver p, .tclose] := by
  obtain ⟨h1, h2⟩ := ioConnect_noKeys hl hr he rfl p hd hp
  refine ⟨h1, ?_, ?_, h2⟩
  · rw [transmitted_eq, h2]; rfl
  · rw [delivered_eq, h2]; rfl

/-- Asked to sign something that is not a token: if the i-th packet read (counting from 0) is an
    AUTH packet whose `arg0` is not AUTH_TOKEN and a key is left for it (`i < len(keys)`), then
    `connect()` raises InvalidResponseError, that packet is the last one it read, it was not signed
    (CNXN plus `i` signatures is all that was sent), and the last thing `connect()` did was to close
    the transport (its second `close()` in this call). -/
theorem C05_non_token (banner : Bytes) (keys : List Nat) (authT : Timeout) (hasCb : Bool) (t : Txn)
    (w w' : World) (r : Except Err Nat) (evs : List TEv) (hl : w.locks = [])
    (hr : ioConnect banner keys authT hasCb t w = (r, w')) (he : w'.trace = evs ++ w.trace)
    (i : Nat) (c : Pkt) (hc : (delivered evs)[i]? = some c) (ha : c.cmd = .AUTH)
    (hn : c.arg0 ≠ Generated.AUTH_TOKEN) (hi : i < keys.length) :
    r = .error .invalidResponse ∧ (delivered evs).length = i + 1 ∧ (transmitted evs).length = i + 1 ∧
      (vis evs).getLast? = some .tclose ∧ closes evs = 2 :=
  ioConnect_nonToken hl hr he i c hc ha hn hi

/-- The public key is offered only after every key was rejected: if an AUTH(RSAPUBLICKEY) message
    is transmitted then its payload is the FIRST key's public key followed by NUL, there is at least
    one key, and the complete list of transmitted messages is CNXN, one signature per key (key i
    over the payload of the i-th packet read), then this public key — so it is sent once and
    nothing is sent after it. The first `len(keys) + 1` packets read were all AUTH challenges. -/
theorem C05_pubkey_only_after_exhaustion (banner : Bytes) (keys : List Nat) (authT : Timeout) (hasCb : Bool) (t : Txn)
    (w w' : World) (r : Except Err Nat) (evs : List TEv) (hl : w.locks = [])
    (hr : ioConnect banner keys authT hasCb t w = (r, w')) (he : w'.trace = evs ++ w.trace) (d : Bytes)
    (hm : (⟨.AUTH, Generated.AUTH_RSAPUBLICKEY, 0, d⟩ : Msg) ∈ transmitted evs) :
    d = stubPub (keys.headD 0) ++ [0] ∧ keys ≠ [] ∧
      transmitted evs =
        ⟨.CNXN, Generated.VERSION, Generated.MAX_ADB_DATA, ascii "host::" ++ banner ++ [0]⟩ ::
          ((List.zip keys ((delivered evs).map (·.data))).map
              (fun kt => (⟨.AUTH, Generated.AUTH_SIGNATURE, 0, stubSign kt.1 kt.2⟩ : Msg)) ++
            [⟨.AUTH, Generated.AUTH_RSAPUBLICKEY, 0, stubPub (keys.headD 0) ++ [0]⟩]) ∧
      keys.length + 1 ≤ (delivered evs).length ∧
      (∀ x ∈ (delivered evs).take (keys.length + 1), x.cmd = .AUTH) :=
  ioConnect_pub hl hr he d hm

/-- The auth callback is invoked at most once; it is invoked exactly when a callback was supplied
    and the public key is sent; and it is the visible event immediately BEFORE the public key is
    handed to `_send` (nothing is sent and no callback runs after that). -/
theorem C05_callback_once (banner : Bytes) (keys : List Nat) (authT : Timeout) (hasCb : Bool) (t : Txn)
    (w w' : World) (r : Except Err Nat) (evs : List TEv) (hl : w.locks = [])
    (hr : ioConnect banner keys authT hasCb t w = (r, w')) (he : w'.trace = evs ++ w.trace) :
    callbacks evs ≤ 1 ∧
      (callbacks evs = 1 ↔
        (hasCb = true ∧ (⟨.AUTH, Generated.AUTH_RSAPUBLICKEY, 0, stubPub (keys.headD 0) ++ [0]⟩ : Msg) ∈ transmitted evs)) ∧
      (callbacks evs = 1 → ∃ pre post,
        vis evs = pre ++ .cbAuth :: .tx ⟨.AUTH, Generated.AUTH_RSAPUBLICKEY, 0, stubPub (keys.headD 0) ++ [0]⟩ :: post ∧
        cbs pre = 0 ∧ trn post = [] ∧ cbs post = 0) :=
  ioConnect_cb hl hr he

/-- After the public key the device is given `auth_timeout_s`: if the public key was handed to
    `_send`, there is a world `w0` (reached when the last key had been rejected, callback event
    included) such that the outcome of `connect()` is: the exception of `_send(public key)` run
    in `w0`, or else exactly the outcome of `_read_expected_packet_from_device([CNXN])` run with
    `transport_timeout_s := auth_timeout_s` in the world `w1` that this `_send` produced — its
    exception, or the `arg1` of the packet it returns. (The lock set is empty again afterwards.) -/
theorem C05_auth_wait (banner : Bytes) (keys : List Nat) (authT : Timeout) (hasCb : Bool) (t : Txn)
    (w w' : World) (r : Except Err Nat) (evs : List TEv) (hl : w.locks = [])
    (hr : ioConnect banner keys authT hasCb t w = (r, w')) (he : w'.trace = evs ++ w.trace)
    (hm : (⟨.AUTH, Generated.AUTH_RSAPUBLICKEY, 0, stubPub (keys.headD 0) ++ [0]⟩ : Msg) ∈ transmitted evs) :
    ∃ w0 : World,
      match sendRaw ⟨.AUTH, Generated.AUTH_RSAPUBLICKEY, 0, stubPub (keys.headD 0) ++ [0]⟩ t w0 with
      | (.error e, w1) => r = .error e ∧ w' = { w1 with locks := [] }
      | (.ok _, w1) =>
        match expectPacket [.CNXN] { t with tt := authT } w1 with
        | (.ok p, w2) => r = .ok p.arg1 ∧ w' = { w2 with locks := [] }
        | (.error e, w2) => r = .error e ∧ w' = { w2 with locks := [] } := by
  obtain ⟨w0, w'', h1, h2⟩ := ioConnect_pubkeyStep hl hr he hm
  rw [pubkeyStep_run] at h1
  refine ⟨if hasCb = true then { w0 with trace := .cbAuth :: w0.trace } else w0, ?_⟩
  change match sendRaw (pubMsg keys) t _ with | (.error e, w1) => _ | (.ok _, w1) => _
  split at h1
  · next e w1 hs =>
    rw [hs]
    simp only [Prod.mk.injEq] at h1
    exact ⟨h1.1.symm, by rw [h2, h1.2]⟩
  · next u w1 hs =>
    rw [hs]
    simp only
    split at h1
    · next p w2 hx =>
      rw [hx]
      simp only [Prod.mk.injEq] at h1
      exact ⟨h1.1.symm, by rw [h2, h1.2]⟩
    · next e w2 hx =>
      rw [hx]
      simp only [Prod.mk.injEq] at h1
      exact ⟨h1.1.symm, by rw [h2, h1.2]⟩

/-- `AdbDevice.connect()` (called with a usable read timeout, i.e. the transaction info can be
    built) runs `_AdbIOManager.connect` with the device's banner and the availability flag cleared;
    the two calls add the same events to the trace, so every C05 statement above applies to it. -/
theorem C05_connect_runs_handshake (keys : List Nat) (tt authT rt : Timeout) (cb : Bool) (w : World) (t : Txn)
    (hm : Txn.make none none (if tt.isSome = true then tt else w.defaultTT) rt none = .ok t)
    (res : Except Err Val) (w' : World) (hr : devConnect keys tt authT rt cb w = (res, w')) :
    ∃ r w1, ioConnect w.banner keys authT cb t { w with available := false } = (r, w1) ∧ w'.trace = w1.trace ∧
      res = r.map (fun _ => Val.bool true) := by
  rw [devConnect_run keys tt authT rt cb w t hm] at hr
  split at hr
  · next md w1 hc =>
    simp only [Prod.mk.injEq] at hr
    exact ⟨.ok md, w1, hc, by rw [← hr.2], hr.1.symm⟩
  · next e w1 hc =>
    simp only [Prod.mk.injEq] at hr
    exact ⟨.error e, w1, hc, by rw [← hr.2], hr.1.symm⟩

/-- `AdbDevice.connect()`: the device is marked available if and only if `connect()` returned
    normally (and then it returned True, a CNXN packet was the last packet read, every earlier one
    was an AUTH challenge, and the device's maxdata is that CNXN's `arg1`); whenever `connect()`
    raises, the device is left unavailable, its maxdata is unchanged and no CNXN packet was read. -/
theorem C05_available_iff (keys : List Nat) (tt authT rt : Timeout) (cb : Bool) (w : World) (t : Txn)
    (hm : Txn.make none none (if tt.isSome = true then tt else w.defaultTT) rt none = .ok t) (hl : w.locks = [])
    (res : Except Err Val) (w' : World) (evs : List TEv)
    (hr : devConnect keys tt authT rt cb w = (res, w')) (he : w'.trace = evs ++ w.trace) :
    (w'.available = true ↔ ∃ v, res = .ok v) ∧
    (∀ v, res = .ok v → v = .bool true ∧ ∃ ps p, delivered evs = ps ++ [p] ∧ (∀ x ∈ ps, x.cmd = .AUTH) ∧
        p.cmd = .CNXN ∧ w'.maxdata = p.arg1) ∧
    (∀ e, res = .error e → w'.available = false ∧ w'.maxdata = w.maxdata ∧ ∀ x ∈ delivered evs, x.cmd = .AUTH) := by
  rw [devConnect_run keys tt authT rt cb w t hm] at hr
  have hfr := Fr_ioConnect w.banner keys authT cb t { w with available := false }
  split at hr
  · next md w1 hc =>
    simp only [Prod.mk.injEq] at hr
    obtain ⟨rfl, rfl⟩ := hr
    obtain ⟨h1, -⟩ := ioConnect_result (w := { w with available := false }) hl hc he
    obtain ⟨ps, p, g1, g2, g3, g4⟩ := h1 md rfl
    refine ⟨by simp, ?_, by simp⟩
    intro v hv
    simp only [Except.ok.injEq] at hv
    exact ⟨hv.symm, ps, p, g1, g2, g3, g4⟩
  · next e w1 hc =>
    simp only [Prod.mk.injEq] at hr
    obtain ⟨rfl, rfl⟩ := hr
    obtain ⟨-, h2⟩ := ioConnect_result (w := { w with available := false }) hl hc he
    rw [hc] at hfr
    have ha : w1.available = false := by simpa using hfr.available
    have hmd : w1.maxdata = w.maxdata := by simpa using hfr.maxdata
    refine ⟨by simp [ha], by simp, ?_⟩
    intro e' _
    exact ⟨ha, hmd, h2 e rfl⟩

/-! ### Non-vacuity: concrete handshakes (evaluated by the kernel) -/

/-- Two challenges then CNXN(0x01000000, 4096, "device::x"), keys [7, 9], callback supplied:
    `connect()` returns True, the device is available with maxdata 4096, and the messages sent are
    CNXN, AUTH(signature of key 7 over the first token), AUTH(signature of key 9 over the second);
    the callback was not invoked. -/
example :
    let out := devConnect [7, 9] none (some 10240) (some 10240) true exWorldAuth
    out.1 = .ok (.bool true) ∧ out.2.available = true ∧ out.2.maxdata = 4096 ∧
      transmitted out.2.trace =
        [⟨.CNXN, Generated.VERSION, Generated.MAX_ADB_DATA, ascii "host::" ++ [0]⟩,
         ⟨.AUTH, Generated.AUTH_SIGNATURE, 0, stubSign 7 exTok1⟩,
         ⟨.AUTH, Generated.AUTH_SIGNATURE, 0, stubSign 9 exTok2⟩] ∧
      delivered out.2.trace = [⟨.AUTH, 1, 0, exTok1⟩, ⟨.AUTH, 1, 0, exTok2⟩, exCnxn] ∧
      callbacks out.2.trace = 0 := by
  decide +kernel

/-- The hypotheses of `C05_available_iff` / `C05_connect_runs_handshake` are satisfiable (same scenario). -/
example : ∃ w t res w' evs, Txn.make none none (if (none : Timeout).isSome = true then none else w.defaultTT)
      (some 10240) none = .ok t ∧ w.locks = [] ∧
    devConnect [7, 9] none (some 10240) (some 10240) true w = (res, w') ∧ w'.trace = evs ++ w.trace ∧
    res = .ok (.bool true) :=
  ⟨exWorldAuth, exTxn,
    (devConnect [7, 9] none (some 10240) (some 10240) true exWorldAuth).1,
    (devConnect [7, 9] none (some 10240) (some 10240) true exWorldAuth).2,
    (devConnect [7, 9] none (some 10240) (some 10240) true exWorldAuth).2.trace,
    by decide +kernel, rfl, pair_eta _, (List.append_nil _).symm, by decide +kernel⟩

/-- Only key 7 and a callback: the key is rejected, the callback runs once, the public key of key 7
    is offered, the device answers CNXN: success (hypotheses of `C05_pubkey_only_after_exhaustion`,
    `C05_callback_once`, `C05_auth_wait`, `C05_signatures`, `C05_success_adopts_cnxn`, `C05_first_message`). -/
example : ∃ w r w' evs, w.locks = [] ∧ canConnect w = true ∧
    ioConnect [] [7] (some 10240) true exTxn w = (r, w') ∧ w'.trace = evs ++ w.trace ∧ r = .ok 4096 ∧
    transmitted evs =
      [⟨.CNXN, Generated.VERSION, Generated.MAX_ADB_DATA, ascii "host::" ++ [0]⟩,
       ⟨.AUTH, Generated.AUTH_SIGNATURE, 0, stubSign 7 exTok1⟩,
       ⟨.AUTH, Generated.AUTH_RSAPUBLICKEY, 0, stubPub 7 ++ [0]⟩] ∧
    callbacks evs = 1 :=
  ⟨exWorldAuth,
    (ioConnect [] [7] (some 10240) true exTxn exWorldAuth).1,
    (ioConnect [] [7] (some 10240) true exTxn exWorldAuth).2,
    (ioConnect [] [7] (some 10240) true exTxn exWorldAuth).2.trace,
    rfl, by decide +kernel, pair_eta _, (List.append_nil _).symm, by decide +kernel, by decide +kernel,
    by decide +kernel⟩

/-- A challenge and no keys (hypotheses of `C05_no_keys`): DeviceAuthError. -/
example : ∃ w r w' evs p, w.locks = [] ∧ ioConnect [] [] (some 10240) false exTxn w = (r, w') ∧
    w'.trace = evs ++ w.trace ∧ (delivered evs).head? = some p ∧ p.cmd = .AUTH ∧ r = .error .deviceAuth :=
  ⟨exWorldChallenge,
    (ioConnect [] [] (some 10240) false exTxn exWorldChallenge).1,
    (ioConnect [] [] (some 10240) false exTxn exWorldChallenge).2,
    (ioConnect [] [] (some 10240) false exTxn exWorldChallenge).2.trace,
    ⟨.AUTH, 1, 0, exTok1⟩, rfl, pair_eta _, (List.append_nil _).symm, by decide +kernel, rfl, by decide +kernel⟩

/-- A token, then AUTH with arg0 = 5, two keys (hypotheses of `C05_non_token` with i = 1): InvalidResponseError. -/
example : ∃ w r w' evs c, w.locks = [] ∧ ioConnect [] [7, 9] (some 10240) false exTxn w = (r, w') ∧
    w'.trace = evs ++ w.trace ∧ (delivered evs)[1]? = some c ∧ c.cmd = .AUTH ∧ c.arg0 ≠ Generated.AUTH_TOKEN ∧
    1 < [7, 9].length ∧ r = .error .invalidResponse :=
  ⟨exWorldBad,
    (ioConnect [] [7, 9] (some 10240) false exTxn exWorldBad).1,
    (ioConnect [] [7, 9] (some 10240) false exTxn exWorldBad).2,
    (ioConnect [] [7, 9] (some 10240) false exTxn exWorldBad).2.trace,
    ⟨.AUTH, 5, 0, exTok2⟩, rfl, pair_eta _, (List.append_nil _).symm, by decide +kernel, rfl, by decide, by decide,
    by decide +kernel⟩

end Adb
