import AdbProofs.Lemmas.SrcLoops
import AdbProofs.Properties.C02Src
/-
  C03 (tie to the source, by proof) — packet validation, `_AdbIOManager._read_packet_from_device` (both twins). harness/pytrans.py turns the CURRENT source of
  that method into pure functions by making the RESULTS of its two `self._read_bytes_from_device(...)` calls parameters (`eff0` = the 24 header bytes, `eff1` = the
  payload bytes) and by cutting the method at each call to obtain the call's arguments. The theorems say the source
    * first asks for exactly `MESSAGE_SIZE` bytes,
    * asks for exactly `data_length` payload bytes — and only for a header that unpacks, names a known command and announces a non-empty payload,
    * rejects an unknown command word with `InvalidCommandError` BEFORE reading any payload, and a non-empty payload whose byte sum differs from the header's
      `data_check` with `InvalidChecksumError`, and otherwise returns exactly `(command id, arg0, arg1, payload)`,
  which is the model's `readPacket` (= `readBytes 24`, [`readBytes len`], then the pure `packetOf`).
  Only property theorems and non-vacuity examples live here.
-/
set_option linter.unusedSimpArgs false
namespace Adb
open Py

/-- the pure part of `readPacket`: header bytes and payload bytes to a packet or an exception -/
def packetOf (msg data : Bytes) : Except Err Pkt :=
  match unpack msg with
  | none => .error .pyValueError
  | some h =>
    match Cmd.ofWire? h.cmd with
    | none => .error .invalidCommand
    | some c =>
      if h.len = 0 then .ok ⟨c, h.arg0, h.arg1, []⟩
      else if checksum data ≠ h.sum then .error .invalidChecksum
      else .ok ⟨c, h.arg0, h.arg1, data⟩

/-- does the header announce a payload that has to be read? -/
def payloadLen (msg : Bytes) : Option Nat :=
  match unpack msg with
  | none => none
  | some h => match Cmd.ofWire? h.cmd with
    | none => none
    | some _ => if h.len = 0 then none else some h.len

/-- The model's packet reader is: read `MESSAGE_SIZE` bytes; read `len` more iff `payloadLen` says so; then `packetOf`. -/
theorem C03_model_read_packet_is_packetOf (t : Txn) (w : World) :
    readPacket t w =
      match readBytes Generated.MESSAGE_SIZE t w with
      | (.error e, w1) => (.error e, w1)
      | (.ok msg, w1) =>
        match payloadLen msg with
        | none => (packetOf msg [], w1)
        | some n =>
          match readBytes n t w1 with
          | (.error e, w2) => (.error e, w2)
          | (.ok data, w2) => (packetOf msg data, w2) := by
  simp only [readPacket, bind, M.bind]
  cases hm : readBytes Generated.MESSAGE_SIZE t w with
  | mk r w1 =>
    cases r with
    | error e => simp
    | ok msg =>
      simp only [payloadLen, packetOf]
      cases hu : unpack msg with
      | none => simp [hu, M.throw]
      | some h =>
        cases hc : Cmd.ofWire? h.cmd with
        | none => simp [hu, hc, M.throw]
        | some c =>
          by_cases h0 : h.len = 0
          · simp [hu, hc, h0, pure, M.pure]
          · simp only [hu, hc, h0, if_false]
            cases hd : readBytes h.len t w1 with
            | mk r2 w2 =>
              cases r2 with
              | error e => simp [M.bind, hd]
              | ok data =>
                by_cases hs : checksum data = h.sum
                · simp [hs, hd, pure, M.pure, M.bind]
                · simp [hs, hd, M.throw, M.bind]

/-- the generated `constants.WIRE_TO_ID` table, looked up with `.get`, is the model's `Cmd.ofWire?` -/
theorem src_wireToId_get (n : Nat) :
    Py.dictGet Src.const_WIRE_TO_ID (.int n) = .ok (match Cmd.ofWire? n with | some c => .bytes c.idBytes | none => .none) := by
  by_cases h1 : n = 1213486401
  · subst h1; rfl
  by_cases h2 : n = 1163086915
  · subst h2; rfl
  by_cases h3 : n = 1314410051
  · subst h3; rfl
  by_cases h4 : n = 1497451343
  · subst h4; rfl
  by_cases h5 : n = 1313165391
  · subst h5; rfl
  by_cases h6 : n = 1129208147
  · subst h6; rfl
  by_cases h7 : n = 1163154007
  · subst h7; rfl
  have hw : Cmd.ofWire? n = none := by
    simp only [Cmd.ofWire?, Cmd.all, List.find?, Cmd.wire_eq]
    have e1 : ((1213486401 : Nat) == n) = false := by simp; omega
    have e2 : ((1163086915 : Nat) == n) = false := by simp; omega
    have e3 : ((1314410051 : Nat) == n) = false := by simp; omega
    have e4 : ((1497451343 : Nat) == n) = false := by simp; omega
    have e5 : ((1313165391 : Nat) == n) = false := by simp; omega
    have e6 : ((1129208147 : Nat) == n) = false := by simp; omega
    have e7 : ((1163154007 : Nat) == n) = false := by simp; omega
    simp [e1, e2, e3, e4, e5, e6, e7]
  rw [hw]
  have k1 : ¬ ((1213486401 : Int) = n) := by omega
  have k2 : ¬ ((1163086915 : Int) = n) := by omega
  have k3 : ¬ ((1314410051 : Int) = n) := by omega
  have k4 : ¬ ((1497451343 : Int) = n) := by omega
  have k5 : ¬ ((1313165391 : Int) = n) := by omega
  have k6 : ¬ ((1129208147 : Int) = n) := by omega
  have k7 : ¬ ((1163154007 : Int) = n) := by omega
  simp [Src.const_WIRE_TO_ID, Py.dictGet, Py.toKey, Py.dlookup, bind, Except.bind, pure, Except.pure, k1, k2, k3, k4, k5, k6, k7]

/-- what `_read_packet_from_device` returns for a packet -/
def encPkt (p : Pkt) : Py.Val := .tuple [.bytes p.cmd.idBytes, .int p.arg0, .int p.arg1, .bytes p.data]

theorem Cmd.idBytes_ne_nil (c : Cmd) : c.idBytes.isEmpty = false := by cases c <;> decide

/-- Packet validation (sync): on header bytes `msg` and payload bytes `data` the source's `_read_packet_from_device` (effects as parameters) returns exactly the
    model's `packetOf`: `ValueError` for a header that does not unpack, `InvalidCommandError` for an unknown command word, `InvalidChecksumError` for a non-empty
    payload whose byte sum is not the header's `data_check`, else `(command id, arg0, arg1, payload)` (the payload parameter is ignored when `data_length = 0`). -/
theorem C03_src_packet_sync (info : Py.Val) (msg data : Bytes) :
    Src.AdbDevice_read_packet_from_device_fn info (.bytes msg) (.bytes data) =
      (match packetOf msg data with
       | .ok p => .ok (encPkt p)
       | .error .invalidCommand => .error .invalidCommand
       | .error .invalidChecksum => .error .invalidChecksum
       | .error _ => .error .valueError) := by
  simp only [Src.AdbDevice_read_packet_from_device_fn, (C02_src_unpack msg).1, packetOf]
  cases hu : unpack msg with
  | none => simp [pysimp]
  | some h =>
    simp only [pysimp, Py.unpackN, List.length, Py.nth, List.getD, List.getElem?_cons_zero, List.getElem?_cons_succ, Option.getD, if_true, src_wireToId_get]
    cases hc : Cmd.ofWire? h.cmd with
    | none => simp [pysimp, Py.not_, Py.truthy, bind, Except.bind, pure, Except.pure]
    | some c =>
      have hne := Cmd.idBytes_ne_nil c
      by_cases h0 : h.len = 0
      · simp [pysimp, Py.not_, Py.truthy, bind, Except.bind, pure, Except.pure, hne, h0, encPkt]
      · have h0' : ¬ ((h.len : Int) = 0) := by omega
        simp only [(C02_src_checksum_bytes data).1]
        by_cases hs : checksum data = h.sum
        · simp [pysimp, Py.not_, Py.truthy, bind, Except.bind, pure, Except.pure, hne, h0, h0', hs, encPkt]
        · have hs' : ¬ ((checksum data : Int) = (h.sum : Int)) := by omega
          simp [pysimp, Py.not_, Py.truthy, bind, Except.bind, pure, Except.pure, hne, h0, h0', hs, hs', encPkt]

/-- Packet validation (async twin): the same. -/
theorem C03_src_packet_async (info : Py.Val) (msg data : Bytes) :
    Src.AdbDeviceAsync_read_packet_from_device_fn info (.bytes msg) (.bytes data) =
      (match packetOf msg data with
       | .ok p => .ok (encPkt p)
       | .error .invalidCommand => .error .invalidCommand
       | .error .invalidChecksum => .error .invalidChecksum
       | .error _ => .error .valueError) := by
  simp only [Src.AdbDeviceAsync_read_packet_from_device_fn, (C02_src_unpack msg).1, packetOf]
  cases hu : unpack msg with
  | none => simp [pysimp]
  | some h =>
    simp only [pysimp, Py.unpackN, List.length, Py.nth, List.getD, List.getElem?_cons_zero, List.getElem?_cons_succ, Option.getD, if_true, src_wireToId_get]
    cases hc : Cmd.ofWire? h.cmd with
    | none => simp [pysimp, Py.not_, Py.truthy, bind, Except.bind, pure, Except.pure]
    | some c =>
      have hne := Cmd.idBytes_ne_nil c
      by_cases h0 : h.len = 0
      · simp [pysimp, Py.not_, Py.truthy, bind, Except.bind, pure, Except.pure, hne, h0, encPkt]
      · have h0' : ¬ ((h.len : Int) = 0) := by omega
        simp only [(C02_src_checksum_bytes data).1]
        by_cases hs : checksum data = h.sum
        · simp [pysimp, Py.not_, Py.truthy, bind, Except.bind, pure, Except.pure, hne, h0, h0', hs, encPkt]
        · have hs' : ¬ ((checksum data : Int) = (h.sum : Int)) := by omega
          simp [pysimp, Py.not_, Py.truthy, bind, Except.bind, pure, Except.pure, hne, h0, h0', hs, hs', encPkt]

/-- The first read asks for exactly `MESSAGE_SIZE` bytes (both twins). -/
theorem C03_src_packet_first_request (info : Py.Val) :
    Src.AdbDevice_read_packet_from_device_eff0_args info = .ok (.tuple [.str "request", .str "_read_bytes_from_device", .int (Generated.MESSAGE_SIZE : Nat), info])
      ∧ Src.AdbDeviceAsync_read_packet_from_device_eff0_args info = .ok (.tuple [.str "request", .str "_read_bytes_from_device", .int (Generated.MESSAGE_SIZE : Nat), info]) := by
  constructor <;> rfl

/-- The second read (sync): after the header bytes `msg`, the source asks for exactly `data_length` more bytes — and only when the header unpacks, names a known
    command and announces a non-empty payload (`payloadLen`); otherwise it has already returned the payload-less packet or raised, without touching the transport
    again (an unknown command is rejected BEFORE any payload is read). -/
theorem C03_src_packet_second_request_sync (info : Py.Val) (msg : Bytes) :
    Src.AdbDevice_read_packet_from_device_eff1_args info (.bytes msg) =
      (match payloadLen msg with
       | some n => .ok (.tuple [.str "request", .str "_read_bytes_from_device", .int n, info])
       | none =>
         match packetOf msg [] with
         | .ok p => .ok (encPkt p)
         | .error .invalidCommand => .error .invalidCommand
         | .error .invalidChecksum => .error .invalidChecksum
         | .error _ => .error .valueError) := by
  simp only [Src.AdbDevice_read_packet_from_device_eff1_args, (C02_src_unpack msg).1, packetOf, payloadLen]
  cases hu : unpack msg with
  | none => simp [pysimp]
  | some h =>
    simp only [pysimp, Py.unpackN, List.length, Py.nth, List.getD, List.getElem?_cons_zero, List.getElem?_cons_succ, Option.getD, if_true, src_wireToId_get]
    cases hc : Cmd.ofWire? h.cmd with
    | none => simp [pysimp, Py.not_, Py.truthy, bind, Except.bind, pure, Except.pure]
    | some c =>
      have hne := Cmd.idBytes_ne_nil c
      by_cases h0 : h.len = 0
      · simp [pysimp, Py.not_, Py.truthy, bind, Except.bind, pure, Except.pure, hne, h0, encPkt]
      · have h0' : ¬ ((h.len : Int) = 0) := by omega
        simp [pysimp, Py.not_, Py.truthy, bind, Except.bind, pure, Except.pure, hne, h0, h0']

/-- The second read (async twin): the same. -/
theorem C03_src_packet_second_request_async (info : Py.Val) (msg : Bytes) :
    Src.AdbDeviceAsync_read_packet_from_device_eff1_args info (.bytes msg) =
      (match payloadLen msg with
       | some n => .ok (.tuple [.str "request", .str "_read_bytes_from_device", .int n, info])
       | none =>
         match packetOf msg [] with
         | .ok p => .ok (encPkt p)
         | .error .invalidCommand => .error .invalidCommand
         | .error .invalidChecksum => .error .invalidChecksum
         | .error _ => .error .valueError) := by
  simp only [Src.AdbDeviceAsync_read_packet_from_device_eff1_args, (C02_src_unpack msg).1, packetOf, payloadLen]
  cases hu : unpack msg with
  | none => simp [pysimp]
  | some h =>
    simp only [pysimp, Py.unpackN, List.length, Py.nth, List.getD, List.getElem?_cons_zero, List.getElem?_cons_succ, Option.getD, if_true, src_wireToId_get]
    cases hc : Cmd.ofWire? h.cmd with
    | none => simp [pysimp, Py.not_, Py.truthy, bind, Except.bind, pure, Except.pure]
    | some c =>
      have hne := Cmd.idBytes_ne_nil c
      by_cases h0 : h.len = 0
      · simp [pysimp, Py.not_, Py.truthy, bind, Except.bind, pure, Except.pure, hne, h0, encPkt]
      · have h0' : ¬ ((h.len : Int) = 0) := by omega
        simp [pysimp, Py.not_, Py.truthy, bind, Except.bind, pure, Except.pure, hne, h0, h0']

/-- Consequences in the property's words: a packet whose non-empty payload does not match the header's checksum is never returned, and an unknown command word
    is never returned — by the SOURCE's function, for every header and payload. -/
theorem C03_src_never_delivers_bad_packet (info : Py.Val) (msg data : Bytes) (v : Py.Val)
    (h : Src.AdbDevice_read_packet_from_device_fn info (.bytes msg) (.bytes data) = .ok v) :
    ∃ p : Pkt, packetOf msg data = .ok p ∧ v = encPkt p ∧ (p.data = [] ∨ (p.data = data ∧ ∃ hd, unpack msg = some hd ∧ checksum data = hd.sum)) ∧
      ∃ hd, unpack msg = some hd ∧ Cmd.ofWire? hd.cmd = some p.cmd := by
  rw [C03_src_packet_sync] at h
  cases hp : packetOf msg data with
  | error e => rw [hp] at h; cases e <;> simp at h
  | ok p =>
    rw [hp] at h
    refine ⟨p, rfl, by injection h with h; exact h.symm, ?_, ?_⟩
    all_goals
      simp only [packetOf] at hp
      cases hu : unpack msg with
      | none => simp [hu] at hp
      | some hd =>
        cases hc : Cmd.ofWire? hd.cmd with
        | none => simp [hu, hc] at hp
        | some c =>
          simp only [hu, hc] at hp
          by_cases h0 : hd.len = 0
          · simp [h0] at hp; subst hp; simp [hc]
          · by_cases hs : checksum data = hd.sum
            · simp [h0, hs] at hp; subst hp; simp [hc, hs]
            · simp [h0, hs] at hp

/-! ### Non-vacuity: an OKAY header (no payload), a WRTE with a matching and with a wrong checksum, an unknown command word -/
example : packetOf (le32 Cmd.OKAY.wire ++ le32 7 ++ le32 3 ++ le32 0 ++ le32 0 ++ le32 (magicOf Cmd.OKAY.wire)) [] = .ok ⟨.OKAY, 7, 3, []⟩ := by rfl
example : packetOf (le32 Cmd.WRTE.wire ++ le32 7 ++ le32 3 ++ le32 2 ++ le32 (97 + 98) ++ le32 (magicOf Cmd.WRTE.wire)) [97, 98] = .ok ⟨.WRTE, 7, 3, [97, 98]⟩ := by rfl
example : packetOf (le32 Cmd.WRTE.wire ++ le32 7 ++ le32 3 ++ le32 2 ++ le32 1 ++ le32 (magicOf Cmd.WRTE.wire)) [97, 98] = .error .invalidChecksum := by rfl
example : packetOf (le32 0xDEADBEEF ++ le32 7 ++ le32 3 ++ le32 2 ++ le32 1 ++ le32 0) [97, 98] = .error .invalidCommand := by rfl

end Adb
