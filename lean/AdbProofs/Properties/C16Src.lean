import AdbProofs.Properties.C07Src
import AdbProofs.Properties.C14Src
/-
  C16 (tie to the source, by proof) — for the parts of `AdbDevice` / `AdbDeviceAsync` that harness/pytrans.py translates from the CURRENT source
  (`max_chunk_size`, the id allocation statements of `_open`), the two twins compute the same thing on every object: both are proved equal to the
  same model function, so a correction made to one twin only breaks one of these theorems. (For everything else C16 is decided by the
  correspondence of both twins with the one model and with each other.)
  Only property theorems and non-vacuity examples live here.
-/
namespace Adb
open Py

/-- `max_chunk_size` gives the same number on the sync and the async class for every `_maxdata`. -/
theorem C16_src_max_chunk_twins (cls cls' : String) (fs fs' : List (String × Py.Val)) (md : Nat)
    (h : alookupS "_maxdata" fs = some (.int md)) (h' : alookupS "_maxdata" fs' = some (.int md)) :
    Src.AdbDevice_max_chunk_size (.obj cls fs) = Src.AdbDeviceAsync_max_chunk_size (.obj cls' fs') := by
  rw [C07_src_max_chunk_sync cls fs md h, C07_src_max_chunk_async cls' fs' md h']

/-- The id allocation statements of `_open` leave the same counter on the sync and the async class, from every counter value. -/
theorem C16_src_alloc_twins (cls cls' : String) (fs fs' : List (String × Py.Val)) (c : Nat)
    (h : alookupS "_local_id" fs = some (.int c)) (h' : alookupS "_local_id" fs' = some (.int c)) :
    ∃ gs gs', Src.AdbDevice_open_alloc_id (.obj cls fs) = .ok (Py.Val.none, .obj cls gs)
      ∧ Src.AdbDeviceAsync_open_alloc_id (.obj cls' fs') = .ok (Py.Val.none, .obj cls' gs')
      ∧ alookupS "_local_id" gs = alookupS "_local_id" gs' := by
  obtain ⟨gs, h1, h2, _⟩ := C14_src_alloc_sync cls fs c h
  obtain ⟨gs', h1', h2', _⟩ := C14_src_alloc_async cls' fs' c h'
  exact ⟨gs, gs', h1, h1', by rw [h2, h2']⟩

/-- non-vacuity: the hypotheses are met by concrete objects of the two classes -/
example : Src.AdbDevice_max_chunk_size (.obj "AdbDevice" [("_maxdata", .int 262144), ("_local_id", .int 3)])
    = Src.AdbDeviceAsync_max_chunk_size (.obj "AdbDeviceAsync" [("_local_id", .int 9), ("_maxdata", .int 262144)]) :=
  C16_src_max_chunk_twins "AdbDevice" "AdbDeviceAsync" _ _ 262144 rfl rfl

end Adb
