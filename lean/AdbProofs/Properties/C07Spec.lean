import AdbProofs.Lemmas.PushLemmas
/-
  The executable specification function the driver evaluates on the implementation's observed runs
  (`AdbModel/Spec.lean`) IS the function the property theorems are stated against.
-/
namespace Adb

/-- the C07 chunking is the chunking of `C07_data_exact` / `C07_sync_shape` -/
theorem C07_spec_chunksOf (k : Nat) (content : Bytes) : Spec.chunksOf k content = Push.chunksOf k content := by
  unfold Spec.chunksOf Push.chunksOf
  generalize content.length = n
  induction n generalizing content with
  | zero => rfl
  | succ n ih => simp only [Spec.chunksOfAux, Push.chunksOfAux, ih]


end Adb
