import AdbProofs.Lemmas.SrcFsRead
/-
  C08 / C10 (tie to the source, by proof) — the loop of `_filesync_read_until` (both twins), extracted from the CURRENT source by harness/pytrans.py with `self._filesync_read(...)` and the
  `yield` as effects: every iteration asks `_filesync_read` for exactly `expected_ids + finish_ids` (with the untouched transaction objects), yields exactly the triple it was handed, in the
  order `(id, header, data)`, and ends the loop iff the id is one of `finish_ids`; the loop condition is `True`.  So the records `list` / `_pull` / `_push` iterate over are exactly the
  ones `_filesync_read` (C10SrcRead.lean) classified, one per iteration, nothing dropped, reordered or repeated.
  Only property theorems live here.
-/
set_option linter.unusedSimpArgs false
namespace Adb
open Py

/-- One iteration of `_filesync_read_until` (sync): request, yield and continuation. -/
theorem C08_src_read_until_iter_sync (expected finish : List SyncId) (info fi x0 x1 x2 hdr data eff1 : Py.Val) (c : SyncId) :
    Src.AdbDevice_filesync_read_until_cond info x0 x1 (encIds expected) fi (encIds finish) x2 = .ok (.bool true)
    ∧ Src.AdbDevice_filesync_read_until_eff0_args info x0 x1 (encIds expected) fi (encIds finish) x2
        = .ok (.tuple [.str "request", .str "_filesync_read", encIds (expected ++ finish), info, fi])
    ∧ Src.AdbDevice_filesync_read_until_eff1_args info x0 x1 (encIds expected) fi (encIds finish) x2 (.tuple [.bytes c.idBytes, hdr, data])
        = .ok (.tuple [.str "request", .str "yield", .tuple [.bytes c.idBytes, hdr, data]])
    ∧ Src.AdbDevice_filesync_read_until_iter info x0 x1 (encIds expected) fi (encIds finish) x2 (.tuple [.bytes c.idBytes, hdr, data]) eff1
        = .ok (.tuple [.str (if finish.contains c then "break" else "continue"), .bytes c.idBytes, data, hdr]) := by
  refine ⟨rfl, ?_, ?_, ?_⟩
  · simp [Src.AdbDevice_filesync_read_until_eff0_args, encIds, Py.add, pysimp]
  · simp [Src.AdbDevice_filesync_read_until_eff1_args, Py.unpackN, Py.nth, pysimp]
  · by_cases h : c ∈ finish <;>
      simp [Src.AdbDevice_filesync_read_until_iter, Py.unpackN, Py.nth, pysimp, Py.inV, Py.contains, encIds, anyEq_syncIdBytes, h]

/-- One iteration of `_filesync_read_until` (async twin): the same statement. -/
theorem C08_src_read_until_iter_async (expected finish : List SyncId) (info fi x0 x1 x2 hdr data eff1 : Py.Val) (c : SyncId) :
    Src.AdbDeviceAsync_filesync_read_until_cond info x0 x1 (encIds expected) fi (encIds finish) x2 = .ok (.bool true)
    ∧ Src.AdbDeviceAsync_filesync_read_until_eff0_args info x0 x1 (encIds expected) fi (encIds finish) x2
        = .ok (.tuple [.str "request", .str "_filesync_read", encIds (expected ++ finish), info, fi])
    ∧ Src.AdbDeviceAsync_filesync_read_until_eff1_args info x0 x1 (encIds expected) fi (encIds finish) x2 (.tuple [.bytes c.idBytes, hdr, data])
        = .ok (.tuple [.str "request", .str "yield", .tuple [.bytes c.idBytes, hdr, data]])
    ∧ Src.AdbDeviceAsync_filesync_read_until_iter info x0 x1 (encIds expected) fi (encIds finish) x2 (.tuple [.bytes c.idBytes, hdr, data]) eff1
        = .ok (.tuple [.str (if finish.contains c then "break" else "continue"), .bytes c.idBytes, data, hdr]) := by
  refine ⟨rfl, ?_, ?_, ?_⟩
  · simp [Src.AdbDeviceAsync_filesync_read_until_eff0_args, encIds, Py.add, pysimp]
  · simp [Src.AdbDeviceAsync_filesync_read_until_eff1_args, Py.unpackN, Py.nth, pysimp]
  · by_cases h : c ∈ finish <;>
      simp [Src.AdbDeviceAsync_filesync_read_until_iter, Py.unpackN, Py.nth, pysimp, Py.inV, Py.contains, encIds, anyEq_syncIdBytes, h]

end Adb
