import AdbProofs.Lemmas.SrcKeys
/-
  C17 (tie to the source, by proof) — `Src.keygen_to_bytes` and `Src.keygen_encode_pubkey_arith` are the translations (harness/pytrans.py,
  regenerated from the CURRENT source on every run) of `adb_shell/auth/keygen.py`'s `_to_bytes` and of the arithmetic part of `encode_pubkey`
  (`n0inv`, `rr`, the two 256-byte little-endian fields and the final `struct.pack`). They compute exactly the hand-written model
  `AdbModel/Keys.lean` (`leBytes`, `i2osp`, `blob`), so the blob theorems of C17.lean (`n0inv = -1/n mod 2^32`, `rr = 2^4096 mod n`,
  decode∘encode, the `.pub` file) are statements about the bytes the source writes now.
  Trusted: the semantics of the Python subset (`AdbModel/Py.lean`), in particular that `Py.modinv` is `rsa._modinv` (extended Euclid).
  Only property theorems and non-vacuity examples live here.
-/
namespace Adb
open Py Keys

/-- `_to_bytes(v, len, 'little')` of the source, on non-negative ints: the model's `leBytes len v` when `v` fits `len` bytes, and
    `OverflowError` (as `int.to_bytes` raises) when it does not. -/
theorem C17_src_to_bytes_little (v len : Nat) :
    Src.keygen_to_bytes (.int v) (.int len) (.str "little")
      = if v < 256 ^ len then .ok (.bytes (leBytes len v)) else .error .overflowError :=
  Src.keygen_to_bytes_little v len

/-- `_to_bytes(v, len, 'big')` of the source: the model's `i2osp len v` (RFC 8017 I2OSP) when `v` fits `len` bytes, `OverflowError` otherwise. -/
theorem C17_src_to_bytes_big (v len : Nat) :
    Src.keygen_to_bytes (.int v) (.int len) (.str "big")
      = if v < 256 ^ len then .ok (.bytes (i2osp len v)) else .error .overflowError :=
  Src.keygen_to_bytes_big v len

/-- The public key blob the SOURCE computes (`n0inv` by `rsa._modinv`, `rr`, `_to_bytes` of `n` and `rr`, `struct.pack`) for a key object
    whose modulus `n` is odd and fits 2048 bits and whose exponent fits 32 bits is exactly the model's `blob n e`. -/
theorem C17_src_encode_pubkey (cls : String) (fs : List (String × Py.Val)) (n e : Nat)
    (hn : Py.alookupS "n" fs = some (.int n)) (he : Py.alookupS "e" fs = some (.int e))
    (hodd : n % 2 = 1) (hsize : n < 256 ^ 256) (hexp : e < 2 ^ 32) :
    Src.keygen_encode_pubkey_arith (.obj cls fs) = .ok (.bytes (blob n e)) := by
  have hn0 : n ≠ 0 := by omega
  have hc : Src.const_ANDROID_PUBKEY_MODULUS_SIZE = .int ((modSize : Nat) : Int) := rfl
  have hw : Src.const_ANDROID_PUBKEY_MODULUS_SIZE_WORDS = .int ((modWords : Nat) : Int) := rfl
  have h2 : Py.mod (.int n) (.int 4294967296) = .ok (.int ((n % 2 ^ 32 : Nat) : Int)) := Py.mod_nat n (2 ^ 32) (by norm_num)
  have h3 := Py.modinv_odd32 (n % 2 ^ 32) (odd_mod_two_pow_32 hodd)
  have h4 : (4294967296 : Int) - ((inv32 (n % 2 ^ 32) : Nat) : Int) = ((n0inv n : Nat) : Int) := by
    have := inv32_lt (n % 2 ^ 32)
    unfold n0inv; omega
  have h5 : Py.mul (.int ((modSize : Nat) : Int)) (.int 8) = .ok (.int ((modSize * 8 : Nat) : Int)) := Py.mul_nat modSize 8
  have h6 : Py.shl (.int 1) (.int ((modSize * 8 : Nat) : Int)) = .ok (.int ((2 ^ (modSize * 8) : Nat) : Int)) := Py.shl_one_nat (modSize * 8)
  have h7 : Py.pow (.int ((2 ^ (modSize * 8) : Nat) : Int)) (.int 2) = .ok (.int (((2 ^ (modSize * 8)) ^ 2 : Nat) : Int)) :=
    Py.pow_nat _ 2
  have h9 : Py.mod (.int (((2 ^ (modSize * 8)) ^ 2 : Nat) : Int)) (.int n) = .ok (.int ((rr n : Nat) : Int)) := by
    rw [Py.mod_nat _ n hn0, rr]
  have hrr : rr n < 256 ^ modSize := lt_trans (rr_lt (by omega)) hsize
  have h11 := Src.keygen_to_bytes_little n modSize
  rw [if_pos (show n < 256 ^ modSize from hsize)] at h11
  have h12 := Src.keygen_to_bytes_little (rr n) modSize
  rw [if_pos hrr] at h12
  have h14 := Src.structPackG_pubkey modWords (n0inv n) e (leBytes modSize n) (leBytes modSize (rr n)) (by decide)
    (n0inv_bounds hodd).2 hexp (leBytes_length _ _) (leBytes_length _ _)
  simp only [Src.keygen_encode_pubkey_arith, pysimp, hn, he, hc, hw, h2, h3, h4, h5, h6, h7, h9, h11, h12, h14, blob]

/-! ### Non-vacuity -/

/-- both branches of `_to_bytes` occur: 258 fits two bytes, not one -/
example : Src.keygen_to_bytes (.int (258 : Nat)) (.int (2 : Nat)) (.str "little") = .ok (.bytes [2, 1])
    ∧ Src.keygen_to_bytes (.int (258 : Nat)) (.int (2 : Nat)) (.str "big") = .ok (.bytes [1, 2])
    ∧ Src.keygen_to_bytes (.int (258 : Nat)) (.int (1 : Nat)) (.str "big") = .error .overflowError := by
  refine ⟨?_, ?_, ?_⟩
  · rw [C17_src_to_bytes_little]; rfl
  · rw [C17_src_to_bytes_big]; rfl
  · rw [C17_src_to_bytes_big]; rfl

/-- the hypotheses of `C17_src_encode_pubkey` are satisfiable: a key object with the odd modulus 3233 = 61·53 and exponent 65537 -/
example : Src.keygen_encode_pubkey_arith (.obj "RSAPublicNumbers" [("e", .int (65537 : Nat)), ("n", .int (3233 : Nat))])
    = .ok (.bytes (blob 3233 65537)) :=
  C17_src_encode_pubkey "RSAPublicNumbers" _ 3233 65537 rfl rfl (by decide) (by norm_num) (by norm_num)

end Adb
