import AdbProofs.Lemmas.PeerFrameApi
/-
  C02 at the level of the public API: what the PEER RECEIVES during any public operation is a
  concatenation of whole well-formed messages (24-byte header, known command, complement magic,
  announced length = payload length, checksum = byte sum), and these messages are exactly the ones
  handed to `_send` (`transmitted` of the trace events of the call).  Only an operation that RAISED
  can leave a proper prefix of one more message with the peer.
  Coverage: every `ApiOp` — shell, exec_out, root, reboot, streaming_shell, list, stat, push
  (`C02_api_wellformed`), pull (`C02_pull_wellformed`: two phases because of its `finally: _clse`),
  connect (`C02_connect_wellformed`), close (`C02_close_wellformed`).
  Only property theorems and non-vacuity examples live here; the per-function infrastructure is in
  AdbProofs/Lemmas/PeerFrame.lean, PeerFrameOps.lean, PeerFrameApi.lean.
-/
namespace Adb
open PeerF

/-- Every public operation that talks over the established connection, except `pull`
    (shell, exec_out, root, reboot, streaming_shell, list, stat, push), in any world and with any
    outcome: the bytes it adds to what the peer has received on the open connection are the
    encodings of packable messages `ms`, one after the other, followed by `tail`.  Either `tail` is
    empty and `ms` are exactly the messages handed to `_send` during the call; or the operation RAISED,
    the messages handed to `_send` are `ms` plus one last message `m`, and `tail` is a PROPER prefix of
    the encoding of `m` (nothing at all if `m` was not packable).  No connection was closed. -/
theorem C02_api_wellformed (op : ApiOp) (hs : op.isStreamOp = true) (hp : op.isPull = false)
    (w : World) (r : Except Err Val) (w' : World) (h : op.run w = (r, w')) :
    ∃ evs ms tail, w'.trace = evs ++ w.trace ∧ (∀ m ∈ ms, m.Packable) ∧
      w'.peerGot = w.peerGot ++ (ms.map Msg.encode).flatten ++ tail ∧
      ((tail = [] ∧ transmitted evs = ms) ∨
       ((∃ e, r = .error e) ∧ ∃ (m : Msg) (k : Nat), transmitted evs = ms ++ [m] ∧ k < m.encode.length ∧
          (¬ m.Packable → k = 0) ∧ tail = m.encode.take k)) ∧
      w'.past = w.past := by
  obtain ⟨evs, ht, ho, hpast⟩ := (Pw_run op hs hp).peerGot h
  obtain ⟨ms, tail, hpk, hb, hc⟩ := ho.unpack
  exact ⟨evs, ms, tail, ht, hpk, hb, hc, hpast⟩

/-- `pull` runs `_clse` in a `finally` clause, so after a write that raised in the middle of a message
    (a one-shot transport timeout) a CLSE is still written.  Hence two phases — everything up to and
    including `_pull` (events `evs1`), then the `finally` clause (events `evs2`) — and EACH phase adds
    whole packable messages followed by a proper prefix of one more only if `pull` raised. -/
theorem C02_pull_wellformed (path : Bytes) (cb : CbMode) (tt rt : Timeout)
    (w : World) (r : Except Err Val) (w' : World) (h : (ApiOp.pull path cb tt rt).run w = (r, w')) :
    ∃ evs1 evs2 ms1 tail1 ms2 tail2, w'.trace = evs2 ++ evs1 ++ w.trace ∧
      (∀ m ∈ ms1, m.Packable) ∧ (∀ m ∈ ms2, m.Packable) ∧
      w'.peerGot = w.peerGot ++ (ms1.map Msg.encode).flatten ++ tail1 ++ (ms2.map Msg.encode).flatten ++ tail2 ∧
      ((tail1 = [] ∧ transmitted evs1 = ms1) ∨
       ((∃ e, r = .error e) ∧ ∃ (m : Msg) (k : Nat), transmitted evs1 = ms1 ++ [m] ∧ k < m.encode.length ∧
          (¬ m.Packable → k = 0) ∧ tail1 = m.encode.take k)) ∧
      ((tail2 = [] ∧ transmitted evs2 = ms2) ∨
       ((∃ e, r = .error e) ∧ ∃ (m : Msg) (k : Nat), transmitted evs2 = ms2 ++ [m] ∧ k < m.encode.length ∧
          (¬ m.Packable → k = 0) ∧ tail2 = m.encode.take k)) ∧
      w'.past = w.past := by
  obtain ⟨e1, e2, mid, ht, ho1, ho2, hpast⟩ := (Pw2_run (.pull path cb tt rt) rfl).peerGot h
  obtain ⟨ms1, tail1, hpk1, hb1, hc1⟩ := ho1.unpack
  obtain ⟨ms2, tail2, hpk2, hb2, hc2⟩ := ho2.unpack
  exact ⟨e1, e2, ms1, tail1, ms2, tail2, ht, hpk1, hpk2, by rw [hb2, hb1]; rfl, hc1, hc2, hpast⟩

/-- The messages on the wire are the transmitted messages: when ANY operation on the established
    connection (`pull` included) returns normally, every message handed to `_send` during the call
    (`transmitted` of the added trace events, the notion C04/C05/C07 speak about) is packable and the
    peer received exactly their encodings, in order, nothing else and nothing partial. -/
theorem C02_messages_are_transmitted (op : ApiOp) (hs : op.isStreamOp = true)
    (w : World) (v : Val) (w' : World) (h : op.run w = (.ok v, w')) :
    ∃ evs, w'.trace = evs ++ w.trace ∧ (∀ m ∈ transmitted evs, m.Packable) ∧
      w'.peerGot = w.peerGot ++ ((transmitted evs).map Msg.encode).flatten := by
  obtain ⟨e1, e2, mid, ht, ho1, ho2, -⟩ := (Pw2_run op hs).peerGot h
  have ho := Out.trans (ho1.mono (not_failed_ok v)) (ho2.mono (not_failed_ok v))
  obtain ⟨hp, hb⟩ := ho.of_ok
  refine ⟨e2 ++ e1, by rw [ht, List.append_assoc], ?_, ?_⟩ <;> rw [transmitted_append]
  · exact hp
  · exact hb

/-- The strict parser that the harness runs on the bytes the implementation wrote accepts the model's
    output: if the peer held whole packable messages `ms₀` before an operation that returns normally,
    then parsing what it holds afterwards gives `ms₀` followed by exactly the messages transmitted
    during the call, with no byte left over. -/
theorem C02_api_parses (op : ApiOp) (hs : op.isStreamOp = true)
    (w : World) (v : Val) (w' : World) (h : op.run w = (.ok v, w'))
    (ms₀ : List Msg) (h₀ : ∀ m ∈ ms₀, m.Packable) (hw : w.peerGot = (ms₀.map Msg.encode).flatten) :
    ∃ evs, w'.trace = evs ++ w.trace ∧
      parseStrict w'.peerGot
        = ((ms₀ ++ transmitted evs).map (fun m => (⟨m.cmd, m.arg0, m.arg1, m.data⟩ : Pkt)), []) := by
  obtain ⟨evs, ht, hp, hb⟩ := C02_messages_are_transmitted op hs w v w' h
  refine ⟨evs, ht, ?_⟩
  have : w'.peerGot = flat (ms₀ ++ transmitted evs) := by rw [hb, hw, flat_append]; rfl
  rw [this]
  apply parseStrict_flat
  intro m hm
  rcases List.mem_append.1 hm with h1 | h1
  · exact h₀ m h1
  · exact hp m h1

/-- `connect()`, in a world whose scripted future connections are fresh (their peers have received
    nothing): over ALL connections (`peerAll`: the closed ones, oldest first, then the open one) the
    peer's bytes grow by whole packable messages — the CNXN/AUTH messages handed to `_send` — plus a
    proper prefix of one more only if `connect` raised; the bytes of the connection that `connect`
    closed first are kept, not rewritten.  When `connect` returns normally the NEW connection is
    open and its peer holds exactly these messages, which the strict parser returns. -/
theorem C02_connect_wellformed (keys : List Nat) (tt authT rt : Timeout) (hasCb : Bool)
    (w : World) (hfresh : w.FreshConns) (r : Except Err Val) (w' : World)
    (h : (ApiOp.connect keys tt authT rt hasCb).run w = (r, w')) :
    ∃ evs ms tail, w'.trace = evs ++ w.trace ∧ (∀ m ∈ ms, m.Packable) ∧
      w'.peerAll = w.peerAll ++ (ms.map Msg.encode).flatten ++ tail ∧
      ((tail = [] ∧ transmitted evs = ms) ∨
       ((∃ e, r = .error e) ∧ ∃ (m : Msg) (k : Nat), transmitted evs = ms ++ [m] ∧ k < m.encode.length ∧
          (¬ m.Packable → k = 0) ∧ tail = m.encode.take k)) ∧
      (∀ v, r = .ok v → w'.peerGot = (ms.map Msg.encode).flatten ∧
        parseStrict w'.peerGot = (ms.map (fun m => (⟨m.cmd, m.arg0, m.arg1, m.data⟩ : Pkt)), [])) := by
  obtain ⟨evs, base, ht, hbase, ho, hok⟩ := devConnect_peer keys tt authT rt hasCb w r w' h
  have hb0 : base = [] := by
    rcases hbase with hb | ⟨c, rest, hc, hb⟩
    · exact hb
    · rw [hb, Conn.peerGot, hfresh c (by simp [hc])]; rfl
  subst hb0
  rw [List.append_nil] at ho
  obtain ⟨ms, tail, hpk, hb, hc⟩ := ho.unpack
  refine ⟨evs, ms, tail, ht, hpk, hb, hc, ?_⟩
  intro v hv
  have hT : transmitted evs = ms := by
    rcases hc with ⟨_, hT⟩ | ⟨⟨e, he⟩, _⟩
    · exact hT
    · rw [hv] at he; cases he
  have hg : w'.peerGot = flat ms := by rw [hok v hv, hT]; rfl
  exact ⟨hg, by rw [hg]; exact parseStrict_flat ms hpk⟩

/-- `close()` writes nothing: no message is handed to `_send` and the bytes the peer has received
    over all connections are unchanged (those of the open connection move to the closed ones). -/
theorem C02_close_wellformed (w : World) (r : Except Err Val) (w' : World) (h : ApiOp.close.run w = (r, w')) :
    ∃ evs, w'.trace = evs ++ w.trace ∧ transmitted evs = [] ∧ w'.peerAll = w.peerAll :=
  devClose_peer w r w' h

/-- Summary over EVERY public operation (connect, close, shell, exec_out, root, reboot, streaming_shell,
    list, stat, pull, push), any world with fresh future connections, any outcome: what the peer has
    received over all connections grows by `bs1 ++ bs2`, each a well-formed stream (whole packable
    messages, optionally followed by a proper prefix of one more — `WellFormedStream`); `bs2` (the
    `finally` clause) is empty for every operation but `pull`; and when the operation returns normally
    `bs1 ++ bs2` is whole packable messages only. -/
theorem C02_every_op_wellformed (op : ApiOp) (w : World) (hfresh : w.FreshConns)
    (r : Except Err Val) (w' : World) (h : op.run w = (r, w')) :
    ∃ bs1 bs2, w'.peerAll = w.peerAll ++ bs1 ++ bs2 ∧ WellFormedStream bs1 ∧ WellFormedStream bs2 ∧
      (op.isPull = false → bs2 = []) ∧
      (∀ v, r = .ok v → ∃ ms : List Msg, (∀ m ∈ ms, m.Packable) ∧ bs1 ++ bs2 = (ms.map Msg.encode).flatten) := by
  by_cases hs : op.isStreamOp = true
  · by_cases hp : op.isPull = true
    · obtain ⟨e1, e2, mid, -, ho1, ho2, -⟩ := Pw2_run op hs w r w' h
      obtain ⟨b1, hb1, hw1, hk1⟩ := ho1.stream
      obtain ⟨b2, hb2, hw2, hk2⟩ := ho2.stream
      refine ⟨b1, b2, by rw [hb2, hb1], hw1, hw2, (fun hn => by rw [hn] at hp; cases hp), ?_⟩
      intro v hv
      have hnf : ¬ Failed r := by rw [hv]; exact not_failed_ok v
      obtain ⟨h1, p1⟩ := hk1 hnf
      obtain ⟨h2, p2⟩ := hk2 hnf
      refine ⟨transmitted e1 ++ transmitted e2, ?_, by rw [h1, h2]; simp [flat]⟩
      intro m hm
      rcases List.mem_append.1 hm with hm | hm
      · exact p1 m hm
      · exact p2 m hm
    · obtain ⟨evs, -, ho, -⟩ := Pw_run op hs (by simpa using hp) w r w' h
      obtain ⟨b1, hb1, hw1, hk1⟩ := ho.stream
      refine ⟨b1, [], by rw [hb1, List.append_nil], hw1, WellFormedStream.nil, fun _ => rfl, ?_⟩
      intro v hv
      have hnf : ¬ Failed r := by rw [hv]; exact not_failed_ok v
      obtain ⟨h1, p1⟩ := hk1 hnf
      exact ⟨transmitted evs, p1, by rw [h1, List.append_nil]; rfl⟩
  · cases op with
    | connect keys tt authT rt hasCb =>
      obtain ⟨evs, ms, tail, -, hpk, hb, hc, hok⟩ := C02_connect_wellformed keys tt authT rt hasCb w hfresh r w' h
      refine ⟨(ms.map Msg.encode).flatten ++ tail, [], by rw [hb]; simp, ?_, WellFormedStream.nil, fun _ => rfl, ?_⟩
      · refine ⟨ms, tail, hpk, rfl, ?_⟩
        rcases hc with ⟨ht, _⟩ | ⟨_, m, k, _, hk, hu, ht⟩
        · exact Or.inl ht
        · by_cases hm : m.Packable
          · exact Or.inr ⟨m, k, hm, hk, ht⟩
          · left; rw [ht, hu hm]; rfl
      · intro v hv
        refine ⟨ms, hpk, ?_⟩
        rcases hc with ⟨ht, _⟩ | ⟨⟨e, he⟩, _⟩
        · rw [ht]; simp
        · rw [hv] at he; cases he
    | close =>
      obtain ⟨evs, -, -, hpa⟩ := C02_close_wellformed w r w' h
      exact ⟨[], [], by simp [hpa], WellFormedStream.nil, WellFormedStream.nil, fun _ => rfl,
        fun _ _ => ⟨[], by simp, rfl⟩⟩
    | _ => exact (hs rfl).elim

/-! ### Non-vacuity (evaluated by the kernel) -/

/-- the shell example of C01 (`demoShellWorld`: connected, idle, the peer answers OPEN with OKAY, two
    WRTEs of this stream, CLSE): the call returns normally, the peer had nothing, and the strict parser
    splits what the peer received into OPEN, OKAY, OKAY, CLSE with nothing left — the hypotheses of
    `C02_api_parses` hold with `ms₀ = []` and its conclusion is this list. -/
example :
    let run := (ApiOp.shell [108, 115] none (some 10240) none false).run demoShellWorld
    run.1.toOption = some (.bytes [0xE2, 0x82, 0xAC, 0x21]) ∧ demoShellWorld.peerGot = [] ∧
    parseStrict run.2.peerGot =
      ([⟨.OPEN, 1, 0, ascii "shell:ls" ++ [0]⟩, ⟨.OKAY, 1, 77, []⟩, ⟨.OKAY, 1, 77, []⟩, ⟨.CLSE, 1, 77, []⟩], []) ∧
    transmitted run.2.trace =
      [⟨.OPEN, 1, 0, ascii "shell:ls" ++ [0]⟩, ⟨.OKAY, 1, 77, []⟩, ⟨.OKAY, 1, 77, []⟩, ⟨.CLSE, 1, 77, []⟩] := by
  decide +kernel

/-- the failure side of `C02_api_wellformed`: the same world with a connection reset after 30 bytes
    written; `shell` raises and the peer holds the first 30 bytes of the 33-byte OPEN, no more. -/
example :
    let w : World := { demoShellWorld with
      cur := demoShellWorld.cur.map fun c => { c with faults := [⟨false, 30, .reset⟩] } }
    let run := (ApiOp.shell [108, 115] none (some 10240) none false).run w
    (match run.1 with | .error e => some e | .ok _ => none) = some Err.transportError ∧
    run.2.peerGot = (⟨.OPEN, 1, 0, ascii "shell:ls" ++ [0]⟩ : Msg).encode.take 30 ∧
    transmitted run.2.trace = [⟨.OPEN, 1, 0, ascii "shell:ls" ++ [0]⟩] := by
  decide +kernel

/-- why `pull` needs two phases: the peer answers the OPEN; the write of the WRTE carrying the RECV request
    meets a one-shot transport timeout after 31 of its 34 bytes; `pull` raises, but its `finally` clause
    still writes a whole CLSE behind the truncated WRTE. -/
example :
    let w : World :=
      { cur := some { segs := [⟨0, (⟨.OKAY, 77, 1, []⟩ : Pkt).encode⟩, ⟨0, (⟨.CLSE, 77, 1, []⟩ : Pkt).encode⟩],
                      faults := [⟨false, 61, .timeout⟩] }, available := true }
    let run := (ApiOp.pull (ascii "/x") .none (some 10240) (some 10240)).run w
    (match run.1 with | .error e => some e | .ok _ => none) = some Err.transportTimeout ∧
    run.2.peerGot = (⟨.OPEN, 1, 0, ascii "sync:" ++ [0]⟩ : Msg).encode
      ++ (⟨.WRTE, 1, 77, ascii "RECV" ++ [2, 0, 0, 0] ++ ascii "/x"⟩ : Msg).encode.take 31
      ++ (⟨.CLSE, 1, 77, []⟩ : Msg).encode := by
  decide +kernel

/-- `connect()` on a fresh scripted connection whose device answers CNXN: the hypotheses of
    `C02_connect_wellformed` hold, the call returns normally and the new peer holds one CNXN message. -/
example :
    let w : World := { conns := [{ segs := [⟨0, (⟨.CNXN, 16777216, 4096, ascii "device::"⟩ : Pkt).encode⟩] }] }
    let run := (ApiOp.connect [] (some 10240) (some 10240) (some 10240) false).run w
    w.FreshConns ∧ run.1.toOption = some (.bool true) ∧
    parseStrict run.2.peerGot = ([⟨.CNXN, 16777216, 1048576, ascii "host::" ++ [0]⟩], []) := by
  refine ⟨?_, by decide +kernel, by decide +kernel⟩
  intro c hc
  simp only [List.mem_singleton] at hc
  subst hc
  rfl

/-- `connect()` that fails authentication (AUTH request, no keys): it raises after closing the
    transport; the CNXN it wrote is kept among the closed connections' bytes. -/
example :
    let w : World := { conns := [{ segs := [⟨0, (⟨.AUTH, 1, 0, [1, 2, 3]⟩ : Pkt).encode⟩] }] }
    let run := (ApiOp.connect [] (some 10240) (some 10240) (some 10240) false).run w
    (match run.1 with | .error e => some e | .ok _ => none) = some Err.deviceAuth ∧ run.2.peerGot = [] ∧
    parseStrict run.2.peerAll = ([⟨.CNXN, 16777216, 1048576, ascii "host::" ++ [0]⟩], []) := by
  decide +kernel

end Adb
