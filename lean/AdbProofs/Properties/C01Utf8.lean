import AdbProofs.Lemmas.Utf8Lemmas
/-
  C01 (decoding part) — "With decode=True shell/exec_out return the backslash-escaping UTF-8 decoding of that
  whole concatenation ... and never raise a decode error".
  These theorems are about the decoder model `Utf8.decodeBS` (`bytes.decode('utf8', 'backslashreplace')`).
  Only property theorems and non-vacuity examples live here; helpers are in AdbProofs/Lemmas/Utf8Lemmas.lean.
-/
namespace Adb
open Utf8

/-- Decoding the empty input gives the empty string. -/
theorem C01_decodeBS_nil : decodeBS [] = [] := decodeBS_nil

/-- When a well-formed sequence of `len` bytes starts the input, the decoder emits its code point and continues
    after exactly those `len` bytes (the fuel of `decodeAux` never runs out). -/
theorem C01_decodeBS_valid (b : UInt8) (rest : Bytes) (cp len : Nat)
    (h : decodeStep (b :: rest) = some (cp, len)) :
    decodeBS (b :: rest) = cp :: decodeBS ((b :: rest).drop len) :=
  decodeBS_valid _ _ _ h

/-- When no well-formed sequence starts the input, the decoder emits `\xNN` for the first byte only and continues
    with the very next byte. -/
theorem C01_decodeBS_invalid (b : UInt8) (rest : Bytes) (h : decodeStep (b :: rest) = none) :
    decodeBS (b :: rest) = escape b ++ decodeBS rest :=
  decodeBS_invalid b rest h

/-- Decoding is total and consumes everything: every input splits, left to right, into segments of 1 to 4 bytes,
    each either a well-formed sequence (contributing its code point) or — only where no well-formed sequence
    starts — a single byte (contributing its `\xNN` escape); the segments' bytes concatenate to the input and
    their outputs concatenate to the decoded string. -/
theorem C01_decode_total_progress (bs : Bytes) :
    ∃ segs : List (Bytes × List Nat), Segmented bs segs
      ∧ (segs.map (·.1)).flatten = bs ∧ (segs.map (·.2)).flatten = decodeBS bs
      ∧ ∀ s ∈ segs, 1 ≤ s.1.length ∧ s.1.length ≤ 4 :=
  segmented_exists bs.length bs (Nat.le_refl _)

/-- A sequence accepted by the decoder yields a Unicode scalar value (never a surrogate, never above U+10FFFF),
    is 1 to 4 bytes long, lies inside the input, and is exactly the (shortest-form) UTF-8 encoding of that
    code point — overlong forms are not accepted. -/
theorem C01_decodeStep_sound (bs : Bytes) (cp len : Nat) (h : decodeStep bs = some (cp, len)) :
    IsScalar cp ∧ 1 ≤ len ∧ len ≤ 4 ∧ len ≤ bs.length ∧ encodeCp cp = bs.take len :=
  decodeStep_sound bs cp len h

/-- The encoding of every scalar value is accepted with its own code point and length, whatever follows. -/
theorem C01_decodeStep_complete (c : Nat) (rest : Bytes) (h : IsScalar c) :
    decodeStep (encodeCp c ++ rest) = some (c, (encodeCp c).length) :=
  decodeStep_complete c rest h

/-- Round trip: valid UTF-8 text (the encoding of any list of scalar values, of any length) decodes to itself. -/
theorem C01_decode_encode (cps : List Nat) (h : ∀ c ∈ cps, IsScalar c) : decodeBS (encode cps) = cps := by
  have := decodeBS_encode_append cps [] h
  simpa [decodeBS_nil] using this

/-- The escape of a byte is the four characters `\`, `x` and the two lowercase hexadecimal digits of the byte
    (high nibble first), and every code point the decoder ever produces is a scalar value — so the result is
    always a legal `str` ("never raise a decode error"). -/
theorem C01_escape_shape :
    (∀ b : UInt8, escape b = [92, 120, hexDigitLower (b.toNat / 16), hexDigitLower (b.toNat % 16)])
    ∧ (∀ n, n < 16 → (n < 10 → hexDigitLower n = 48 + n) ∧ (10 ≤ n → hexDigitLower n = 97 + (n - 10))
        ∧ ((48 ≤ hexDigitLower n ∧ hexDigitLower n ≤ 57) ∨ (97 ≤ hexDigitLower n ∧ hexDigitLower n ≤ 102)))
    ∧ (∀ bs : Bytes, ∀ c ∈ decodeBS bs, IsScalar c) := by
  refine ⟨fun _ => rfl, ?_, decodeBS_scalar⟩
  intro n hn
  refine ⟨?_, ?_, hexDigitLower_range n hn⟩
  · intro h; simp [hexDigitLower, h]
  · intro h; unfold hexDigitLower; split <;> omega

/-- Bytes below 0x80 decode to themselves. -/
theorem C01_decode_ascii (bs : Bytes) (h : ∀ b ∈ bs, b < 0x80) : decodeBS bs = bs.map (·.toNat) :=
  decodeBS_ascii bs h

/-- Splitting the input at a character boundary commutes with decoding: valid text followed by anything decodes
    to that text followed by the decoding of the remainder. (Per-chunk decoding can therefore differ from
    decoding the whole concatenation only when a chunk boundary falls inside a character.) -/
theorem C01_decode_append_valid (cps : List Nat) (rest : Bytes) (h : ∀ c ∈ cps, IsScalar c) :
    decodeBS (encode cps ++ rest) = cps ++ decodeBS rest :=
  decodeBS_encode_append cps rest h

/-! ### non-vacuity and concrete behaviour -/

/-- per-chunk decoding differs from decoding the whole concatenation when a chunk boundary falls inside a
    character (U+20AC, `E2 82 AC`) -/
example : decodeBS ([0xE2, 0x82] ++ [0xAC]) = [0x20AC]
    ∧ decodeBS [0xE2, 0x82] ++ decodeBS [0xAC] = escape 0xE2 ++ escape 0x82 ++ escape 0xAC
    ∧ escape 0xE2 ++ escape 0x82 ++ escape 0xAC
        = [92, 120, 101, 50, 92, 120, 56, 50, 92, 120, 97, 99] := by decide

-- hypotheses of `C01_decodeBS_valid` / `C01_decodeStep_sound` are satisfiable (4-byte sequence, U+1F600)
example : decodeStep [0xF0, 0x9F, 0x98, 0x80, 0x41] = some (0x1F600, 4) := by decide
-- hypotheses of `C01_decodeBS_invalid`: overlong `C0 80`, surrogate `ED A0 80`, too large `F4 90 80 80`, truncated
example : decodeStep [0xC0, 0x80] = none ∧ decodeStep [0xED, 0xA0, 0x80] = none
    ∧ decodeStep [0xF4, 0x90, 0x80, 0x80] = none ∧ decodeStep [0xE2, 0x82] = none
    ∧ decodeStep [0xE0, 0x9F, 0xBF] = none ∧ decodeStep [0xF0, 0x8F, 0xBF, 0xBF] = none := by decide
-- scalar values exist in every length class, including the boundaries
example : IsScalar 0x41 ∧ IsScalar 0x7FF ∧ IsScalar 0x800 ∧ IsScalar 0xD7FF ∧ IsScalar 0xE000 ∧ IsScalar 0xFFFF
    ∧ IsScalar 0x10000 ∧ IsScalar 0x10FFFF ∧ ¬ IsScalar 0xD800 ∧ ¬ IsScalar 0xDFFF ∧ ¬ IsScalar 0x110000 := by
  unfold IsScalar; omega
-- the round trip on a text using all four lengths, followed by an invalid byte
example : encode [0x41, 0xE9, 0x20AC, 0x1F600] = [0x41, 0xC3, 0xA9, 0xE2, 0x82, 0xAC, 0xF0, 0x9F, 0x98, 0x80]
    ∧ decodeBS (encode [0x41, 0xE9, 0x20AC, 0x1F600] ++ [0xFF])
        = [0x41, 0xE9, 0x20AC, 0x1F600, 92, 120, 102, 102] := by decide
-- ASCII hypothesis satisfiable
example : (∀ b ∈ ([0x68, 0x69, 0x0A] : Bytes), b < 0x80) ∧ decodeBS [0x68, 0x69, 0x0A] = [0x68, 0x69, 0x0A] := by
  decide
-- a concrete segmentation: valid 2-byte sequence, stray continuation byte, ASCII
example : Segmented [0xC3, 0xA9, 0x80, 0x41] [([0xC3, 0xA9], [0xE9]), ([0x80], escape 0x80), ([0x41], [0x41])] :=
  .valid _ 0xE9 2 _ (by decide) (.invalid _ _ _ (by decide) (.valid _ 0x41 1 _ (by decide) .nil))

end Adb
