import AdbProofs.Lemmas.PushExamples
/-
  C07 — push.  For any local file, BytesIO or directory and any negotiated maxdata, the sync stream
  produced by push decodes to SEND('<device_path>,<mode>'), DATA chunks whose concatenation is the
  source content, DONE(mtime, or the current time when 0), once per file; files inside a pushed
  directory go to '<device_path>/<name>'; no DATA chunk exceeds 64 KiB, no WRTE payload exceeds
  maxdata; push returns normally only after the device's sync OKAY; the progress callback sees byte
  counts summing to the file size and neither its presence nor its failure changes what is sent.

  Conventions: the trace is stored most recent first; `evs` is the list of events a call added
  (`w'.trace = evs ++ w.trace`); `transmitted evs` are the messages handed to `_send`, oldest first;
  `wrtePayloads l r evs` the payloads of the WRTE messages of stream `(l, r)`;
  `syncRec id size data = pack('<2I', id, size) + data`; `chunksOf k content` the successive
  non-empty `read(k)` results.
-/
namespace Adb
open Adb.Push

/-- The chunk constant taken from `constants.py` is positive and at most 64 KiB, and the legacy
    fallback is positive (the build breaks if the constants change beyond that). -/
theorem C07_chunk_const :
    Generated.MAX_CHUNK_SIZE ≤ 65536 ∧ 0 < Generated.MAX_CHUNK_SIZE ∧ 0 < Generated.MAX_PUSH_DATA := by decide

/-- `max_chunk_size` is never 0, never above 64 KiB, and at most half of maxdata whenever maxdata ≥ 2. -/
theorem C07_max_chunk (maxdata : Nat) :
    0 < maxChunkSize maxdata ∧ maxChunkSize maxdata ≤ 65536 ∧ (2 ≤ maxdata → maxChunkSize maxdata ≤ maxdata / 2) :=
  maxChunkSize_spec maxdata

/-- `_read_until` hands nothing to `_send` except (at most) OKAY messages — in particular never a
    WRTE — and never calls the progress callback, whatever its outcome. -/
theorem C07_readUntil_only_okay (ex : List Cmd) (t : Txn) (w : World) (evs : List TEv)
    (hev : (readUntil ex t w).2.trace = evs ++ w.trace) :
    (∀ m ∈ transmitted evs, m.cmd = Cmd.OKAY) ∧ progressCalls evs = [] := by
  obtain ⟨e, he, hq⟩ := (Tr_readUntil QOkay.house QOkay.deliv QOkay.txOkay ex t).trace w
  have : evs = e := evs_unique (he ▸ hev)
  subst this
  exact ⟨QOkay.transmitted hq, QOkay.progressCalls hq⟩

/-- `_AdbIOManager.read` hands nothing at all to `_send`, whatever its outcome. -/
theorem C07_read_transmits_nothing (ex : List Cmd) (t : Txn) (az : Bool) (w : World) (evs : List TEv)
    (hev : (ioRead ex t az w).2.trace = evs ++ w.trace) : transmitted evs = [] :=
  ioRead_noTx ex t az w hev

/-- The buffering law of `_filesync_send`: what went out in WRTEs on this stream during the call,
    followed by what is buffered afterwards, is what was buffered before followed by the new record.
    Buffering loses, duplicates and reorders nothing. -/
theorem C07_flush_conservation (id : SyncId) (t : Txn) (fi fi' : FsInfo) (data : Bytes) (size : Option Nat)
    (w w' : World) (evs : List TEv)
    (h : fsSend id t fi data size w = (.ok fi', w')) (hev : w'.trace = evs ++ w.trace) :
    (wrtePayloads (t.localId.getD 0) (t.remoteId.getD 0) evs).flatten ++ fi'.sendBuf
      = fi.sendBuf ++ syncRec id (size.getD data.length) data :=
  fsSend_conservation h hev

/-- `_filesync_flush`: exactly one WRTE of this stream goes out and it carries the whole buffer; the
    buffer is empty afterwards; the receive buffer grows by exactly the payloads of the device's
    WRTE packets that arrived before the OKAY, in order; the callback is not called. -/
theorem C07_flush_conservation_flush (t : Txn) (fi fi' : FsInfo) (w w' : World) (evs : List TEv)
    (h : fsFlush t fi w = (.ok fi', w')) (hev : w'.trace = evs ++ w.trace) :
    wrtePayloads (t.localId.getD 0) (t.remoteId.getD 0) evs = [fi.sendBuf] ∧ fi'.sendBuf = [] ∧
    fi'.recvBuf = fi.recvBuf ++ deliveredWrteData evs ∧ progressCalls evs = [] ∧
    fi'.fmt = fi.fmt ∧ fi'.maxdata = fi.maxdata := by
  obtain ⟨-, hp, hpc, hsb, hf, hm⟩ := fsFlush_ok h hev
  exact ⟨hp, hsb, fsFlush_recv h hev, hpc, hf, hm⟩

/-- If the record fits an empty buffer (`fmt.size + len(data) < maxdata`) and the buffer is below
    maxdata, every WRTE sent by `_filesync_send` is non-empty and shorter than maxdata, and the
    buffer stays non-empty and below maxdata. -/
theorem C07_wrte_bound (id : SyncId) (t : Txn) (fi fi' : FsInfo) (data : Bytes) (size : Option Nat)
    (w w' : World) (evs : List TEv)
    (h : fsSend id t fi data size w = (.ok fi', w')) (hev : w'.trace = evs ++ w.trace)
    (hfit : fi.fmt.size + data.length < fi.maxdata)
    (hinv : 0 < fi.sendBuf.length → fi.sendBuf.length < fi.maxdata) :
    (∀ p ∈ wrtePayloads (t.localId.getD 0) (t.remoteId.getD 0) evs, 0 < p.length ∧ p.length < fi.maxdata) ∧
    0 < fi'.sendBuf.length ∧ fi'.sendBuf.length < fi.maxdata :=
  fsSend_bound h hev hfit hinv

/-- For a whole `_push`: if the SEND record and a full DATA record fit an empty buffer, no WRTE
    payload of the stream is empty or reaches maxdata.  (`17 ≤ maxdata` suffices for the DATA
    records of a push stream: `C07_chunk_fits`.) -/
theorem C07_wrte_bound_push (content devPath : Bytes) (mode mtime : Nat) (cb : CbMode) (t : Txn) (fi₀ : FsInfo)
    (w w' : World) (evs : List TEv)
    (h : pushOne content devPath mode mtime cb t fi₀ w = (.ok (), w')) (hev : w'.trace = evs ++ w.trace)
    (hbuf : fi₀.sendBuf = []) (hmd : fi₀.maxdata = w.maxdata)
    (hsend : fi₀.fmt.size + (devPath ++ [44] ++ decimal mode).length < w.maxdata)
    (hdata : fi₀.fmt.size + maxChunkSize w.maxdata < w.maxdata) :
    ∀ p ∈ wrtePayloads (t.localId.getD 0) (t.remoteId.getD 0) evs, 0 < p.length ∧ p.length < w.maxdata := by
  rw [← hmd] at hsend ⊢
  exact pushOne_bound h hev (by simp [hbuf]) hsend (by rw [hmd]; exact hdata)

/-- a DATA record of the push format fits an empty buffer as soon as maxdata ≥ 17 -/
theorem C07_chunk_fits (maxdata : Nat) (h : 17 ≤ maxdata) :
    SyncFmt.push.size + maxChunkSize maxdata < maxdata := maxChunk_fits h

/-- The data loop of `_push`: the WRTE payloads sent during the loop followed by the final buffer are
    the initial buffer followed by one DATA record per chunk; the chunks concatenate to the source
    content; every chunk is non-empty and at most `chunk` bytes. -/
theorem C07_data_exact (devPath : Bytes) (cb : CbMode) (total chunk : Nat) (t : Txn) (fuel : Nat) (content : Bytes)
    (fi fi' : FsInfo) (w w' : World) (evs : List TEv) (hchunk : 0 < chunk)
    (h : pushDataLoop devPath cb total chunk t fuel content fi w = (.ok fi', w')) (hev : w'.trace = evs ++ w.trace) :
    (wrtePayloads (t.localId.getD 0) (t.remoteId.getD 0) evs).flatten ++ fi'.sendBuf
        = fi.sendBuf ++ ((chunksOf chunk content).map fun c => syncRec .DATA c.length c).flatten ∧
    (chunksOf chunk content).flatten = content ∧
    (∀ c ∈ chunksOf chunk content, 0 < c.length ∧ c.length ≤ chunk) :=
  ⟨(pushDataLoop_ok h hev).1, chunksOf_flatten chunk hchunk content, chunksOf_bound chunk content⟩

/-- The progress callback, when present, is called once per chunk with `(device_path, len(chunk),
    total)`, in order; the byte counts sum to the content length; without a callback nothing is recorded. -/
theorem C07_progress_sum (devPath : Bytes) (cb : CbMode) (total chunk : Nat) (t : Txn) (fuel : Nat) (content : Bytes)
    (fi fi' : FsInfo) (w w' : World) (evs : List TEv) (hchunk : 0 < chunk)
    (h : pushDataLoop devPath cb total chunk t fuel content fi w = (.ok fi', w')) (hev : w'.trace = evs ++ w.trace) :
    (cb ≠ CbMode.none → progressCalls evs = (chunksOf chunk content).map fun c => (devPath, c.length, total)) ∧
    (cb ≠ CbMode.none → ((progressCalls evs).map fun c => c.2.1).sum = content.length) ∧
    (cb = CbMode.none → progressCalls evs = []) := by
  have hp := (pushDataLoop_ok h hev).2.1
  refine ⟨fun hne => by rw [hp, if_neg hne], fun hne => ?_, fun he => by rw [hp, if_pos he]⟩
  rw [hp, if_neg hne, List.map_map]
  exact chunksOf_lengths_sum chunk hchunk content

/-- The callback never fails and touches nothing but the trace: a raising callback is swallowed. -/
theorem C07_callback_never_fails (cb : CbMode) (p : Bytes) (n tot : Nat) (w : World) :
    callProgress cb p n tot w =
      (.ok (), { w with trace := (if cb = CbMode.none then [] else [TEv.cbProgress p n tot]) ++ w.trace }) :=
  callProgress_run cb p n tot w

/-- Callback irrelevance for the data loop: with any two callback modes (absent, counting, raising)
    the loop has the same outcome, transmits the same messages, and ends in worlds that are equal
    except for the trace (so the peer received the same bytes, the store and the clock agree); the
    traces agree once progress records are removed. -/
theorem C07_callback_irrelevant (devPath : Bytes) (cb₁ cb₂ : CbMode) (total chunk : Nat) (t : Txn) (fuel : Nat)
    (content : Bytes) (fi : FsInfo) (w : World) :
    ∃ evs₁ evs₂ r w₁' w₂',
      pushDataLoop devPath cb₁ total chunk t fuel content fi w = (r, w₁') ∧
      pushDataLoop devPath cb₂ total chunk t fuel content fi w = (r, w₂') ∧
      w₁'.trace = evs₁ ++ w.trace ∧ w₂'.trace = evs₂ ++ w.trace ∧
      transmitted evs₁ = transmitted evs₂ ∧ evs₁.filter notProg = evs₂.filter notProg ∧
      w₂' = { w₁' with trace := w₂'.trace } ∧
      w₁'.cur = w₂'.cur ∧ w₁'.store = w₂'.store ∧ w₁'.now = w₂'.now :=
  (Rel_pushDataLoop devPath cb₁ cb₂ total chunk t fuel content fi).outcomes w

/-- Callback irrelevance for a whole `_push`. -/
theorem C07_callback_irrelevant_push (content devPath : Bytes) (mode mtime : Nat) (cb₁ cb₂ : CbMode) (t : Txn)
    (fi : FsInfo) (w : World) :
    ∃ evs₁ evs₂ r w₁' w₂',
      pushOne content devPath mode mtime cb₁ t fi w = (r, w₁') ∧
      pushOne content devPath mode mtime cb₂ t fi w = (r, w₂') ∧
      w₁'.trace = evs₁ ++ w.trace ∧ w₂'.trace = evs₂ ++ w.trace ∧
      transmitted evs₁ = transmitted evs₂ ∧ evs₁.filter notProg = evs₂.filter notProg ∧
      w₂' = { w₁' with trace := w₂'.trace } ∧
      w₁'.cur = w₂'.cur ∧ w₁'.store = w₂'.store ∧ w₁'.now = w₂'.now :=
  (Rel_pushOne content devPath mode mtime cb₁ cb₂ t fi).outcomes w

/-- The sync stream of one `_push` that returns normally, started with empty buffers: the WRTE
    payloads of the stream concatenate to SEND('<device_path>,<mode>'), one DATA record per chunk of
    `max_chunk_size` bytes (whose concatenation is the content, `C07_data_exact`), and DONE(mtime'),
    where mtime' is the given mtime unless that is 0, in which case it is the clock (in seconds) of
    the world `w₂` in which the data loop ended.  Nothing else, nothing twice. -/
theorem C07_sync_shape (content devPath : Bytes) (mode mtime : Nat) (cb : CbMode) (t : Txn) (fi₀ : FsInfo)
    (w w' : World) (evs : List TEv)
    (h : pushOne content devPath mode mtime cb t fi₀ w = (.ok (), w')) (hev : w'.trace = evs ++ w.trace)
    (hs : fi₀.sendBuf = []) (_hr : fi₀.recvBuf = []) (_hm : fi₀.maxdata = w.maxdata) :
    ∃ mtime', (mtime ≠ 0 → mtime' = mtime) ∧
      (mtime = 0 → ∃ fi₁ w₁ fi₂ w₂,
        fsSend .SEND t fi₀ (devPath ++ [44] ++ decimal mode) none w = (.ok fi₁, w₁) ∧
        pushDataLoop devPath cb content.length (maxChunkSize w.maxdata) t w₁.fuel content fi₁ w₁ = (.ok fi₂, w₂) ∧
        mtime' = (w₂.now / 1024).toNat) ∧
      (wrtePayloads (t.localId.getD 0) (t.remoteId.getD 0) evs).flatten =
        syncRec .SEND (devPath ++ [44] ++ decimal mode).length (devPath ++ [44] ++ decimal mode) ++
        ((chunksOf (maxChunkSize w.maxdata) content).map fun c => syncRec .DATA c.length c).flatten ++
        syncRec .DONE mtime' [] ∧
      ((chunksOf (maxChunkSize w.maxdata) content).flatten = content) ∧
      (∀ c ∈ chunksOf (maxChunkSize w.maxdata) content, 0 < c.length ∧ c.length ≤ 65536) ∧
      progressCalls evs = (if cb = CbMode.none then []
        else (chunksOf (maxChunkSize w.maxdata) content).map fun c => (devPath, c.length, content.length)) := by
  obtain ⟨fi1, fi2, fi3, w1, w2, w3, mtime', h1, h3, hmt, -, -, hshape, hprog⟩ := pushOne_ok h hev
  have hmc := maxChunkSize_spec w.maxdata
  refine ⟨mtime', ?_, ?_, ?_, chunksOf_flatten _ hmc.1 content, ?_, hprog⟩
  · intro hne; rw [hmt, if_neg hne]
  · intro h0; exact ⟨fi1, w1, fi2, w2, h1, h3, by rw [hmt, if_pos h0]⟩
  · rw [hshape, hs]; simp
  · intro c hc
    have := chunksOf_bound _ content c hc
    exact ⟨this.1, by omega⟩

/-- `_push` returns normally only through the device's sync OKAY: the status read
    (`_filesync_read([OKAY, FAIL])`) returned a record with id OKAY. -/
theorem C07_ok_only_after_status (t : Txn) (fi : FsInfo) (w w' : World)
    (h : pushStatus t fi w = (.ok (), w')) :
    ∃ r fi₂, fsRead [.OKAY, .FAIL] t fi w = (.ok (r, fi₂), w') ∧ r.id = SyncId.OKAY :=
  pushStatus_ok h

/-- …and a status record that is not OKAY (i.e. FAIL) makes `_push` raise `PushFailedError(data)`. -/
theorem C07_fail_status_raises (t : Txn) (fi fi₂ : FsInfo) (w w₁ : World) (r : SyncRec)
    (h : fsRead [.OKAY, .FAIL] t fi w = (.ok (r, fi₂), w₁)) (hne : r.id ≠ SyncId.OKAY) :
    pushStatus t fi w = (.error (.pushFailed (r.data.getD [])), w₁) := by
  unfold pushStatus
  rw [bind_run_ok h]
  simp [hne]

/-- For the whole `_push`: a normal return means that, AFTER everything was buffered (the buffer
    then is non-empty, so the status read begins by flushing it), the status read returned OKAY;
    and the final world is the world of that read — nothing happens afterwards. -/
theorem C07_ok_only_after_status_push (content devPath : Bytes) (mode mtime : Nat) (cb : CbMode) (t : Txn) (fi₀ : FsInfo)
    (w w' : World) (h : pushOne content devPath mode mtime cb t fi₀ w = (.ok (), w')) :
    ∃ fi₃ w₃ r fi₄, fi₃.sendBuf ≠ [] ∧ fsRead [.OKAY, .FAIL] t fi₃ w₃ = (.ok (r, fi₄), w') ∧ r.id = SyncId.OKAY := by
  obtain ⟨e, he⟩ := Fr.evs (Fr_pushOne _ _ _ _ _ _ _) h
  obtain ⟨fi1, fi2, fi3, w1, w2, w3, e1, e2, e3, e4, -, -, h5, h6, -⟩ := pushOne_inv h he
  obtain ⟨r, fi4, h7, hid⟩ := pushStatus_ok h6
  exact ⟨fi3, w3, r, fi4, fsSend_sendBuf_ne_nil h5, h7, hid⟩

/-- Directory push, the walk: each entry `(name, file)` of the directory is pushed to
    '<device_path>/<name>', in listing order. -/
theorem C07_dir_targets (devPath : Bytes) (mode mtime : Nat) (cb : CbMode) (tt rt : Timeout)
    (name : Bytes) (fid : Nat) (rest : List (Bytes × Nat)) :
    pushFiles devPath mode mtime cb tt rt ((name, fid) :: rest) =
      (pushFile fid (devPath ++ [47] ++ name) mode mtime cb tt rt >>= fun _ =>
        pushFiles devPath mode mtime cb tt rt rest) ∧
    pushFiles devPath mode mtime cb tt rt [] = pure () :=
  ⟨rfl, rfl⟩

/-- Directory push: once the guards pass, `shell("mkdir <device_path>")` runs first, then the files
    of the directory's listing are pushed. -/
theorem C07_dir_mkdir_first (id : Nat) (devPath : Bytes) (mode mtime : Nat) (cb : CbMode) (tt rt : Timeout) (w : World)
    (i : Nat) (entries : List (Bytes × Nat))
    (hg : (runGuards (guardsFor "push") (some devPath) w).1 = .ok ())
    (hd : w.dirs.find? (·.1 == id) = some (i, entries)) :
    devPush (.dir id) devPath mode mtime cb tt rt w =
      (devShellLike "shell" (ascii "shell") (ascii "mkdir " ++ devPath) tt rt none true >>= fun _ =>
        pushFiles devPath mode mtime cb tt rt entries >>= fun _ => pure Val.none) w :=
  devPush_dir hg hd

/-- A regular file or BytesIO is pushed as one file to the device path itself. -/
theorem C07_file_target (src : LocalRef) (id : Nat) (hs : src = .file id ∨ src = .bytesio id)
    (devPath : Bytes) (mode mtime : Nat) (cb : CbMode) (tt rt : Timeout) (w : World)
    (hg : (runGuards (guardsFor "push") (some devPath) w).1 = .ok ()) :
    devPush src devPath mode mtime cb tt rt w =
      (pushFile id devPath mode mtime cb tt rt >>= fun _ => pure Val.none) w :=
  devPush_file hs hg

/-- One file end to end (`_open`, `_push`, `_clse`): the content is the local file's, and over the
    WHOLE call the WRTE payloads of the file's sync stream concatenate to SEND, DATA…, DONE — opening
    and closing the stream add no WRTE; the callback sees one call per chunk. -/
theorem C07_file_stream (fid : Nat) (devPath : Bytes) (mode mtime : Nat) (cb : CbMode) (tt rt : Timeout) (w w' : World)
    (evs : List TEv)
    (h : pushFile fid devPath mode mtime cb tt rt w = (.ok (), w')) (hev : w'.trace = evs ++ w.trace) :
    ∃ (i : Nat) (content : Bytes) (t : Txn) (mtime' : Nat),
      w.files.find? (·.1 == fid) = some (i, content) ∧ (mtime ≠ 0 → mtime' = mtime) ∧
      (wrtePayloads (t.localId.getD 0) (t.remoteId.getD 0) evs).flatten =
        syncRec .SEND (devPath ++ [44] ++ decimal mode).length (devPath ++ [44] ++ decimal mode) ++
        ((chunksOf (maxChunkSize w.maxdata) content).map fun c => syncRec .DATA c.length c).flatten ++
        syncRec .DONE mtime' [] ∧
      progressCalls evs = (if cb = CbMode.none then []
        else (chunksOf (maxChunkSize w.maxdata) content).map fun c => (devPath, c.length, content.length)) :=
  pushFile_stream h hev

/-! ### non-vacuity -/

example : (chunksOf 2048 (List.replicate 4097 0)).map List.length = [2048, 2048, 1] := by decide +kernel
example : chunksOf 3 [1, 2, 3, 4, 5, 6, 7] = [[1, 2, 3], [4, 5, 6], [7]] := by decide
example : maxChunkSize 4096 = 2048 := by decide
example : maxChunkSize 0 = Generated.MAX_PUSH_DATA := by decide
example : maxChunkSize 1048576 = 65536 := by decide

/-- `_filesync_send` that has to flush (16 bytes buffered, 24 more do not fit 32): hypotheses of
    `C07_flush_conservation` and `C07_wrte_bound` hold in a concrete world. -/
example : ∃ fi' w', fsSend .DATA exT { exFi 32 with sendBuf := List.replicate 16 1 } (List.replicate 16 9) none w32
      = (.ok fi', w') ∧
    (exFi 32).fmt.size + (List.replicate 16 (9 : UInt8)).length < (exFi 32).maxdata ∧
    (List.replicate 16 (1 : UInt8)).length < (exFi 32).maxdata := by
  obtain ⟨a, w', h⟩ := ok_of_isOk (x := fsSend .DATA exT { exFi 32 with sendBuf := List.replicate 16 1 }
    (List.replicate 16 9) none) (w := w32) (by decide +kernel)
  exact ⟨a, w', h, by decide, by decide⟩

/-- a flush during which a device WRTE overtakes the OKAY: it lands in the receive buffer -/
example : (∃ fi' w', fsFlush exT { exFi 4096 with sendBuf := [1, 2, 3] } wOvertake = (.ok fi', w')) ∧
    deliveredWrteData (fsFlush exT { exFi 4096 with sendBuf := [1, 2, 3] } wOvertake).2.trace
      = [70, 65, 73, 76, 1, 0, 0, 0, 1] :=
  ⟨ok_of_isOk (by decide +kernel), by decide +kernel⟩

/-- the data loop on 7 bytes in chunks of 3 with a counting callback (no I/O needed) -/
example : ∃ fi' w', pushDataLoop [47, 120] .count 7 3 exT 10 [1, 2, 3, 4, 5, 6, 7] (exFi 4096) wFile = (.ok fi', w') :=
  ok_of_isOk (by decide +kernel)

/-- a whole `_push` of 20 bytes with maxdata 32 and a RAISING callback returns normally; the
    hypotheses of `C07_sync_shape` and `C07_wrte_bound_push` hold; four WRTEs go out -/
example : (∃ w', pushOne (List.replicate 20 9) [47, 120] 33188 0 .raise exT (exFi 32) w32 = (.ok (), w')) ∧
    (exFi 32).sendBuf = [] ∧ (exFi 32).recvBuf = [] ∧ (exFi 32).maxdata = w32.maxdata ∧
    (exFi 32).fmt.size + ([47, 120] ++ [44] ++ decimal 33188).length < w32.maxdata ∧
    (exFi 32).fmt.size + maxChunkSize w32.maxdata < w32.maxdata ∧
    (wrtePayloads 1 7 (pushOne (List.replicate 20 9) [47, 120] 33188 0 .raise exT (exFi 32) w32).2.trace).map List.length
      = [16, 24, 20] ∧
    (progressCalls (pushOne (List.replicate 20 9) [47, 120] 33188 0 .raise exT (exFi 32) w32).2.trace)
      = [([47, 120], 16, 20), ([47, 120], 4, 20)] :=
  ⟨ok_of_isOk_unit (by decide +kernel), rfl, rfl, rfl, by decide +kernel, by decide +kernel, by decide +kernel,
   by decide +kernel⟩

/-- the status read returning OKAY / FAIL -/
example : ∃ w', pushStatus exT { exFi 4096 with sendBuf := [1] } wStatus = (.ok (), w') :=
  ok_of_isOk_unit (by decide +kernel)
example : ∃ r fi₂ w₁, fsRead [.OKAY, .FAIL] exT { exFi 4096 with sendBuf := [1] } wFail = (.ok (r, fi₂), w₁) ∧
    r.id ≠ SyncId.OKAY :=
  fail_of_statusIsFail (by decide +kernel)

/-- one file end to end, and the hypotheses of the directory theorems -/
example : ∃ w', pushFile 5 [47, 120] 33188 0 .count (some 10) (some 10) wFile = (.ok (), w') :=
  ok_of_isOk_unit (by decide +kernel)
example : (runGuards (guardsFor "push") (some [47, 120]) wFile).1 = .ok () ∧
    wFile.dirs.find? (·.1 == 3) = some (3, [([97], 5), ([98], 5)]) := by
  refine ⟨?_, by decide +kernel⟩
  obtain ⟨w', h⟩ := ok_of_isOk_unit (x := runGuards (guardsFor "push") (some [47, 120])) (w := wFile) (by decide +kernel)
  rw [h]

end Adb
