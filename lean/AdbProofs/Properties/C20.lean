import AdbProofs.Lemmas.Usb
/-
  C20 — the USB transport honours the transport contract on a conforming libusb backend.
  Model: `Adb.Usb` (AdbModel/Usb.lean), a transcription of `UsbTransport` over a scripted backend that logs every call.
  Timeouts are in milliseconds (`some ms` = a `transport_timeout_s` whose product with 1000 is exactly `ms`, `none` = `None`).
-/
namespace Adb
open Usb

/-- A successful `connect` holds a handle for the ADB interface: the backend calls it made are exactly
    `open`, then (unless the platform is Windows) `kernelDriverActive(i)` and possibly `detachKernelDriver(i)`, and finally
    `claimInterface(i)` on the handle just opened, where `i` is the number of the ADB setting; the transport remembers that
    handle and that interface number. -/
theorem C20_connect_claims (w w' : World) (h : connect w = (.ok (), w')) :
    ∃ hid mid,
      w'.st.handle = some ⟨hid⟩ ∧ w'.st.iface = some w.cfg.iface ∧
      w'.be.log = w.be.log ++ ([Call.open] ++ mid ++ [Call.claim hid w.cfg.iface]) ∧
      ((w.cfg.windows = true ∧ mid = []) ∨
        (w.cfg.windows = false ∧ (mid = [.kda hid w.cfg.iface] ∨ mid = [.kda hid w.cfg.iface, .detach hid w.cfg.iface]))) := by
  obtain ⟨r, wr, mid, _, _, hst, hlog, hmid⟩ := connect_ok h
  exact ⟨w.be.opened + 1, mid, by rw [hst], by rw [hst], hlog, hmid⟩

/-- Whatever sequence of `connect` / `bulk_read` / `bulk_write` / `close` calls is made on a fresh transport, with whatever
    backend script: every `bulkRead` that reaches the backend uses an endpoint address of the transport's setting with bit
    0x80 set (IN), every `bulkWrite` one with bit 0x80 clear (OUT), and every kernel-driver / claim / release call names the
    setting's interface number. -/
theorem C20_endpoints (cfg : Dev) (d : Option Nat) (script : List Res) (ops : List Op) :
    ∀ c ∈ (run (World.new cfg d script) ops).be.log,
      match c with
      | .bulkRead _ ep _ _ => ∃ a, ep = some a ∧ a ∈ cfg.eps ∧ a &&& 0x80 ≠ 0
      | .bulkWrite _ ep _ _ => ∃ a, ep = some a ∧ a ∈ cfg.eps ∧ a &&& 0x80 = 0
      | .kda _ i => i = cfg.iface
      | .detach _ i => i = cfg.iface
      | .claim _ i => i = cfg.iface
      | .release _ i => i = some cfg.iface
      | _ => True := by
  intro c hc
  obtain ⟨⟨_, hL⟩, hcfg⟩ := inv_run (inv_new cfg d script) ops
  have := hL c hc
  rw [hcfg] at this
  cases c <;> first | trivial | simpa [GoodCall, World.new] using this

/-- Which endpoints a successful `connect` settles on when the setting has several: the LAST address with bit 0x80 set
    becomes the read endpoint and the LAST address without it the write endpoint (as the loop in the code does). -/
theorem C20_endpoint_choice (w w' : World) (h : connect w = (.ok (), w')) :
    w'.st.readEp = (w.cfg.eps.filter (fun a => a &&& 0x80 != 0)).getLast? ∧
    w'.st.writeEp = (w.cfg.eps.filter (fun a => !(a &&& 0x80 != 0))).getLast? := by
  obtain ⟨r, wr, mid, hscan, _, hst, _, _⟩ := connect_ok h
  rw [scanEndpoints_last] at hscan
  simp only [Prod.mk.injEq] at hscan
  rw [hst]
  exact ⟨hscan.1.symm, hscan.2.symm⟩

/-- On an open transport whose backend is conforming for the device's IN stream (each successful `bulkRead` answer is at
    most the requested size and is the next bytes of the stream; errors consume nothing), a series of `bulk_read(n_i, t_i)`
    calls gives one result per call, and every payload is at most `n_i` bytes long. -/
theorem C20_read_le_requested (w : World) (h : Handle) (hh : w.st.handle = some h)
    (calls : List (Nat × Option Nat)) (stream : Bytes)
    (hc : Conforming (calls.map (·.1)) stream w.be.script) :
    (readMany w calls).1.length = calls.length ∧
    ∀ (i : Nat) (c : Nat × Option Nat) (bs : Bytes),
      calls[i]? = some c → (readMany w calls).1[i]? = some (Out.ok bs) → bs.length ≤ c.1 :=
  within_get _ _ (readMany_conforming calls w h stream hh hc).1

/-- Under the same hypothesis the payloads come in order: their concatenation is a prefix of the device's IN stream, and the
    transport's attributes are unchanged by reading. -/
theorem C20_read_in_order (w : World) (h : Handle) (hh : w.st.handle = some h)
    (calls : List (Nat × Option Nat)) (stream : Bytes)
    (hc : Conforming (calls.map (·.1)) stream w.be.script) :
    okBytes (readMany w calls).1 <+: stream ∧ (readMany w calls).2.st = w.st :=
  (readMany_conforming calls w h stream hh hc).2

/-- Timeouts are passed in milliseconds: an explicit timeout is passed as it is (`int(t * 1000)` with `ms = t * 1000`), `None`
    means the transport's default, which is the constructor's value or — when that is `None` too — `DEFAULT_TIMEOUT_S * 1000`
    as generated from the source; no operation ever changes the default; and the value that reaches the backend with a
    `bulkRead` / `bulkWrite` is exactly that number. -/
theorem C20_timeout_ms (w : World) (h : Handle) (hh : w.st.handle = some h) (ms n : Nat) (t : Option Nat) (data : Bytes)
    (ops : List Op) :
    timeoutMs w.st (some ms) = ms ∧ timeoutMs w.st none = w.st.defaultMs ∧
    (St.new none).defaultMs = Generated.USB_DEFAULT_TIMEOUT_MS ∧ (St.new (some ms)).defaultMs = ms ∧
    (run w ops).st.defaultMs = w.st.defaultMs ∧
    (∃ tail, (bulkRead w n t).2.be.log = w.be.log ++ (.bulkRead h.id w.st.readEp n (timeoutMs w.st t) :: tail)) ∧
    (∃ tail, (bulkWrite w data t).2.be.log = w.be.log ++ (.bulkWrite h.id w.st.writeEp data (timeoutMs w.st t) :: tail)) := by
  refine ⟨rfl, rfl, rfl, rfl, run_defaultMs w ops, ?_, ?_⟩
  · obtain ⟨_, _, tail, hl, _⟩ := bulkRead_open hh n t
    exact ⟨tail, hl⟩
  · obtain ⟨_, _, tail, hl, _⟩ := bulkWrite_open hh data t
    exact ⟨tail, hl⟩

/-- Error mapping: on an open transport, when the backend answers the transfer with a `USBError` of any kind, `bulk_read`
    raises `UsbReadFailedError` and `bulk_write` raises `UsbWriteFailedError`, and the attributes are unchanged; and in
    every state and for every script these are the ONLY errors the two methods can raise.  (`close` swallows every
    `USBError`: it has no error outcome at all and always forgets the handle.) -/
theorem C20_error_mapping (w : World) (n : Nat) (t : Option Nat) (data : Bytes) :
    (∀ h k rest, w.st.handle = some h → w.be.script = .err k :: rest →
        (bulkRead w n t).1 = .err .usbReadFailed ∧ (bulkWrite w data t).1 = .err .usbWriteFailed ∧
        (bulkRead w n t).2.st = w.st ∧ (bulkWrite w data t).2.st = w.st) ∧
    (∀ e, (bulkRead w n t).1 = .err e → e = .usbReadFailed) ∧
    (∀ e, (bulkWrite w data t).1 = .err e → e = .usbWriteFailed) ∧
    (close w).st.handle = none := by
  refine ⟨?_, ?_, ?_, close_handle w⟩
  · intro h k rest hh hs
    have h1 := bulkRead_script hh n t
    have h2 := bulkWrite_script hh data t
    rw [hs] at h1 h2
    exact ⟨h1.1, h2, (bulkRead_open hh n t).1, (bulkWrite_open hh data t).1⟩
  · intro e he
    cases hh : w.st.handle with
    | none => rw [bulkRead_closed hh] at he; cases he; rfl
    | some h =>
      have h1 := bulkRead_script hh n t
      cases hs : w.be.script with
      | nil => rw [hs] at h1; rw [h1.1] at he; cases he
      | cons r rest =>
        rw [hs] at h1
        cases r with
        | ok bs k => rw [h1.1] at he; cases he
        | err k => rw [h1.1] at he; cases he; rfl
  · intro e he
    cases hh : w.st.handle with
    | none => rw [bulkWrite_closed hh] at he; cases he; rfl
    | some h =>
      have h1 := bulkWrite_script hh data t
      cases hs : w.be.script with
      | nil => rw [hs] at h1; rw [h1] at he; cases he
      | cons r rest =>
        rw [hs] at h1
        cases r with
        | ok bs k => rw [h1] at he; cases he
        | err k => rw [h1] at he; cases he; rfl

/-- What `connect` can raise: `AssertionError` when the setting lacks an IN or an OUT endpoint — then nothing at all has
    happened — or the backend's own `USBError`, unchanged. -/
theorem C20_connect_errors (w w' : World) (e : Err) (h : connect w = (.err e, w')) :
    (e = .assertion ∧ w' = w) ∨ ∃ k, e = .usb k := by
  unfold connect at h
  rcases hs : scanEndpoints w.cfg.eps with ⟨r?, w?⟩
  rw [hs] at h
  cases r? with
  | none => simp only [Prod.mk.injEq, Out.err.injEq] at h; exact .inl ⟨h.1.symm, h.2.symm⟩
  | some r =>
    cases w? with
    | none => simp only [Prod.mk.injEq, Out.err.injEq] at h; exact .inl ⟨h.1.symm, h.2.symm⟩
    | some wr =>
      try simp only at h
      rcases hc : w.be.call .open with ⟨ro, b1⟩
      rw [hc] at h
      try simp only at h
      cases ro with
      | err k => simp only [Prod.mk.injEq, Out.err.injEq] at h; exact .inr ⟨k, h.1.symm⟩
      | ok bs0 n0 =>
        try simp only at h
        rcases hk : kernelStep w.cfg.windows (b1.opened + 1) w.cfg.iface { b1 with opened := b1.opened + 1 } with ⟨k?, b2⟩
        rw [hk] at h
        try simp only at h
        cases k? with
        | some k => simp only [Prod.mk.injEq, Out.err.injEq] at h; exact .inr ⟨k, h.1.symm⟩
        | none =>
          try simp only at h
          rcases hcc : b2.call (.claim (b1.opened + 1) w.cfg.iface) with ⟨rc, b3⟩
          rw [hcc] at h
          try simp only at h
          cases rc with
          | err k => simp only [Prod.mk.injEq, Out.err.injEq] at h; exact .inr ⟨k, h.1.symm⟩
          | ok bs1 n1 => simp at h

/-- Use after close: `bulk_read` raises `UsbReadFailedError` and `bulk_write` raises `UsbWriteFailedError`; the whole world —
    attributes, remaining script and the backend's call log — is exactly as `close` left it, so no backend call is made. -/
theorem C20_use_after_close (w : World) (n : Nat) (t : Option Nat) (data : Bytes) :
    bulkRead (close w) n t = (.err .usbReadFailed, close w) ∧
    bulkWrite (close w) data t = (.err .usbWriteFailed, close w) :=
  ⟨bulkRead_closed (close_handle w) n t, bulkWrite_closed (close_handle w) data t⟩

/-- `close` is idempotent: a second `close` changes nothing (not even the backend's call log), and `close` on a transport that
    was never connected does nothing either. -/
theorem C20_close_idempotent (w : World) (cfg : Dev) (d : Option Nat) (script : List Res) :
    close (close w) = close w ∧ close (World.new cfg d script) = World.new cfg d script :=
  ⟨close_closed (close_handle w), close_closed rfl⟩

/-- What `close` does on an open transport: `releaseInterface(i)` on the held handle, then the handle's `close()` — skipped
    when the release failed — plus one `getSerialNumber` for the log message when either failed; only the handle is forgotten. -/
theorem C20_close_releases (w : World) (h : Handle) (hh : w.st.handle = some h) :
    (close w).st = { w.st with handle := none } ∧
    ∃ tail, (close w).be.log = w.be.log ++ (.release h.id w.st.iface :: tail) ∧
      (tail = [.hclose h.id] ∨ tail = [.serial] ∨ tail = [.hclose h.id, .serial]) :=
  (close_open hh).2

/-! ### non-vacuity (the example device `c20Cfg`, script `c20Script` and worlds `c20W0`, `c20W1 = after connect` are defined
    in AdbProofs/Lemmas/Usb.lean) -/

/-- `connect` succeeds on it, with the calls the theorem describes (hypothesis of C20_connect_claims / C20_endpoint_choice) -/
example : (connect c20W0).1 = .ok () ∧
    (connect c20W0).2.be.log = [.open, .kda 1 3, .detach 1 3, .claim 1 3] ∧
    (connect c20W0).2.st = { handle := some ⟨1⟩, iface := some 3, readEp := some 0x82, writeEp := some 0x02, defaultMs := 10000 } := by
  decide

/-- the remaining script is conforming for reads of sizes 2, 4, 3 on the stream 1 2 3 4 5 6 (hypothesis of C20_read_*),
    with a time-out in the middle -/
example : c20W1.st.handle = some ⟨1⟩ ∧ Conforming ([(2, none), (4, some 500), (3, some 0)].map (·.1)) [1, 2, 3, 4, 5, 6] c20W1.be.script := by
  refine ⟨by decide, ?_⟩
  simp only [List.map, Conforming]
  refine ⟨by decide, by decide, by decide, by decide, trivial⟩

example : (readMany c20W1 [(2, none), (4, some 500), (3, some 0)]).1 = [.ok [1, 2], .err .usbReadFailed, .ok [3, 4, 5]] ∧
    (readMany c20W1 [(2, none), (4, some 500), (3, some 0)]).2.be.log.drop 4 =
      [.bulkRead 1 (some 0x82) 2 10000, .bulkRead 1 (some 0x82) 4 500, .serial, .bulkRead 1 (some 0x82) 3 0] := by
  decide

/-- a backend error on an open transport (hypothesis of C20_error_mapping) -/
example : (bulkWrite { c20W1 with be := { c20W1.be with script := [.err .noDevice] } } [9] (some 2250)).1 = .err .usbWriteFailed := by
  decide

/-- a whole run: write, close (release fails: the handle's close() is skipped), use after close, reconnect impossible to
    confuse with the old handle (handle ids count up) -/
example : (run c20W0 [.connect, .write [9] none, .close, .read 1 none, .connect]).be.log =
    [.open, .kda 1 3, .detach 1 3, .claim 1 3, .bulkWrite 1 (some 0x02) [9] 10000, .release 1 (some 3), .serial,
     .open, .kda 2 3, .detach 2 3, .claim 2 3] := by
  decide

/-- a setting without an OUT endpoint: AssertionError, nothing happened (hypothesis of C20_connect_errors) -/
example : connect (World.new { iface := 0, eps := [0x81, 0x83] } (some 500) []) =
    (.err .assertion, World.new { iface := 0, eps := [0x81, 0x83] } (some 500) []) := by
  decide

end Adb
