import AdbProofs.Properties.C19Src
import AdbProofs.Properties.C19SrcMatch
import AdbProofs.Properties.C05Src
/-
  C06 (tie to the source, by proof; also what C01 / C19 rest on) — what `_AdbIOManager.read` / `_AdbIOManagerAsync.read` does with a packet it has just read from the device, extracted from the CURRENT
  source by harness/pytrans.py (`read_route_snippet`: the `if not adb_info.args_match(...)` statement and what follows it in its block, with the locks stripped, as a function of the
  packet that also returns `self`, whose store it changes) and proved equal to the routing step of the model's `readIter` (Wire.lean):
    * a packet whose ids do not match this transaction (`Txn.argsMatch`, with `allow_zeros`) is PARKED: the store becomes `Store.put` and nothing is returned to this reader;
    * a matching CLSE clears this stream's queue (`Store.clear`); any other matching packet leaves the store untouched;
    * a matching packet is returned iff its command is expected, as exactly `(cmd, arg0, arg1, data)`; an unexpected matching packet is dropped (returned to nobody, parked nowhere).
  Built from `C19_src_args_match`, `C19_src_put`, `C19_src_clear` — so the per-stream isolation theorems of C01 / C06 / C19, which are about `Store.put` / `Txn.argsMatch`, are about the
  routing the source performs now.  Only property theorems and non-vacuity examples live here.
-/
set_option linter.unusedSimpArgs false
namespace Adb
open Py

/-- the model's routing step (the part of `readIter` after `readPacket`): the new store and what is handed to the reader -/
def routeStep (expected : List Cmd) (t : Txn) (az : Bool) (s : Store) (cmd : Cmd) (a0 a1 : Nat) (data : Bytes) : Store × Option (Cmd × Nat × Nat × Bytes) :=
  if !t.argsMatch a0 a1 az then (s.put a0 a1 cmd data, none)
  else ((if cmd = .CLSE then s.clear a0 a1 else s), (if expected.contains cmd then some (cmd, a0, a1, data) else none))

def encRet : Option (Cmd × Nat × Nat × Bytes) → Py.Val
  | none => .none
  | some (c, a0, a1, d) => .tuple [.bytes c.idBytes, .int a0, .int a1, .bytes d]

theorem Py.getPath_attr (cls : String) (fs : List (String × Py.Val)) (k : String) (v : Py.Val) (h : alookupS k fs = some v) :
    Py.getPath (.obj cls fs) [Py.Acc.attr k] = .ok v := by
  simp [Py.getPath, Py.getAcc, pysimp, h]

/-- Routing of a packet just read from the device (sync class): for every store, transaction (ids possibly `None`), expected-command list, packet and `allow_zeros`, the source returns
    exactly what the model's `routeStep` hands to the reader and leaves exactly the model's new store in `self._packet_store` (the object is untouched when a matching non-CLSE
    packet arrives). -/
theorem C06_src_read_route_sync (mcls scls icls : String) (mfs ifs : List (String × Py.Val)) (s : Store) (t : Txn) (expected : List Cmd) (cmd : Cmd) (a0 a1 : Nat) (az : Bool)
    (data : Bytes) (hs : alookupS "_packet_store" mfs = some (encStore scls s))
    (hl : alookupS "local_id" ifs = some (encOptNat t.localId)) (hr : alookupS "remote_id" ifs = some (encOptNat t.remoteId)) :
    Src.AdbDevice_io_read_route (.obj mcls mfs) (encCmds expected) (.obj icls ifs) (.bool az) (.bytes cmd.idBytes) (.int a0) (.int a1) (.bytes data)
      = .ok (.tuple [encRet (routeStep expected t az s cmd a0 a1 data).2,
                     if t.argsMatch a0 a1 az ∧ cmd ≠ .CLSE then .obj mcls mfs
                     else .obj mcls (asetS "_packet_store" (encStore scls (routeStep expected t az s cmd a0 a1 data).1) mfs)]) := by
  have hb : cmd.idBytes = cmd.bytes := rfl
  have hc : Src.const_CLSE = .bytes Cmd.CLSE.idBytes := rfl
  have hw : (cmd.idBytes == Cmd.CLSE.idBytes) = (cmd == Cmd.CLSE) := idBytes_eq_iff cmd .CLSE
  have hput := C19_src_put scls s a0 a1 cmd data
  have hclr := C19_src_clear scls s a0 a1
  rw [← hb] at hput
  by_cases hm : t.argsMatch a0 a1 az = true
  · by_cases hcl : cmd = .CLSE
    · subst hcl
      by_cases he : Cmd.CLSE ∈ expected <;>
        simp [Src.AdbDevice_io_read_route, pysimp, C19_src_args_match icls ifs t a0 a1 az hl hr, hm, hc, hw, he, Py.getPath_attr _ _ _ _ hs, hclr, encCmds, Py.inV, Py.contains,
          anyEq_idBytes, routeStep, encRet, Py.eqV_bytes_bytes]
    · by_cases he : cmd ∈ expected <;>
        simp [Src.AdbDevice_io_read_route, pysimp, C19_src_args_match icls ifs t a0 a1 az hl hr, hm, hc, hw, hcl, he, Py.getPath_attr _ _ _ _ hs, hclr, encCmds, Py.inV, Py.contains,
          anyEq_idBytes, routeStep, encRet, Py.eqV_bytes_bytes]
  · simp [Src.AdbDevice_io_read_route, pysimp, C19_src_args_match icls ifs t a0 a1 az hl hr, hm, Py.getPath_attr _ _ _ _ hs, hput, routeStep, encRet]

/-- Routing of a packet just read from the device (async twin): the same statement. -/
theorem C06_src_read_route_async (mcls scls icls : String) (mfs ifs : List (String × Py.Val)) (s : Store) (t : Txn) (expected : List Cmd) (cmd : Cmd) (a0 a1 : Nat) (az : Bool)
    (data : Bytes) (hs : alookupS "_packet_store" mfs = some (encStore scls s))
    (hl : alookupS "local_id" ifs = some (encOptNat t.localId)) (hr : alookupS "remote_id" ifs = some (encOptNat t.remoteId)) :
    Src.AdbDeviceAsync_io_read_route (.obj mcls mfs) (encCmds expected) (.obj icls ifs) (.bool az) (.bytes cmd.idBytes) (.int a0) (.int a1) (.bytes data)
      = .ok (.tuple [encRet (routeStep expected t az s cmd a0 a1 data).2,
                     if t.argsMatch a0 a1 az ∧ cmd ≠ .CLSE then .obj mcls mfs
                     else .obj mcls (asetS "_packet_store" (encStore scls (routeStep expected t az s cmd a0 a1 data).1) mfs)]) := by
  have hb : cmd.idBytes = cmd.bytes := rfl
  have hc : Src.const_CLSE = .bytes Cmd.CLSE.idBytes := rfl
  have hw : (cmd.idBytes == Cmd.CLSE.idBytes) = (cmd == Cmd.CLSE) := idBytes_eq_iff cmd .CLSE
  have hput := C19_src_put scls s a0 a1 cmd data
  have hclr := C19_src_clear scls s a0 a1
  rw [← hb] at hput
  by_cases hm : t.argsMatch a0 a1 az = true
  · by_cases hcl : cmd = .CLSE
    · subst hcl
      by_cases he : Cmd.CLSE ∈ expected <;>
        simp [Src.AdbDeviceAsync_io_read_route, pysimp, C19_src_args_match icls ifs t a0 a1 az hl hr, hm, hc, hw, he, Py.getPath_attr _ _ _ _ hs, hclr, encCmds, Py.inV, Py.contains,
          anyEq_idBytes, routeStep, encRet, Py.eqV_bytes_bytes]
    · by_cases he : cmd ∈ expected <;>
        simp [Src.AdbDeviceAsync_io_read_route, pysimp, C19_src_args_match icls ifs t a0 a1 az hl hr, hm, hc, hw, hcl, he, Py.getPath_attr _ _ _ _ hs, hclr, encCmds, Py.inV, Py.contains,
          anyEq_idBytes, routeStep, encRet, Py.eqV_bytes_bytes]
  · simp [Src.AdbDeviceAsync_io_read_route, pysimp, C19_src_args_match icls ifs t a0 a1 az hl hr, hm, Py.getPath_attr _ _ _ _ hs, hput, routeStep, encRet]

/-! ### Non-vacuity: a packet for another stream is parked; a matching expected WRTE is returned and the store is untouched -/
example : routeStep [.WRTE, .CLSE] ⟨some 1, some 7, none, none, none⟩ false [] .WRTE 9 2 [1] = (Store.put [] 9 2 .WRTE [1], none) := rfl
example : routeStep [.WRTE, .CLSE] ⟨some 1, some 7, none, none, none⟩ false [] .WRTE 7 1 [1] = ([], some (.WRTE, 7, 1, [1])) := rfl
example : routeStep [.OKAY] ⟨some 1, some 7, none, none, none⟩ false [] .WRTE 7 1 [1] = ([], none) := rfl
example : Src.AdbDevice_io_read_route (.obj "_AdbIOManager" [("_packet_store", encStore "_AdbPacketStore" [])]) (encCmds [.WRTE, .CLSE])
    (.obj "_AdbTransactionInfo" [("local_id", .int 1), ("remote_id", .int 7)]) (.bool false) (.bytes Cmd.WRTE.idBytes) (.int 9) (.int 2) (.bytes [1])
    = .ok (.tuple [.none, .obj "_AdbIOManager" (asetS "_packet_store" (encStore "_AdbPacketStore" (Store.put [] 9 2 .WRTE [1])) [("_packet_store", encStore "_AdbPacketStore" [])])]) := by
  have h := C06_src_read_route_sync "_AdbIOManager" "_AdbPacketStore" "_AdbTransactionInfo" [("_packet_store", encStore "_AdbPacketStore" [])] [("local_id", .int 1), ("remote_id", .int 7)]
    [] ⟨some 1, some 7, none, none, none⟩ [.WRTE, .CLSE] .WRTE 9 2 false [1] rfl rfl rfl
  exact h.trans rfl

end Adb
