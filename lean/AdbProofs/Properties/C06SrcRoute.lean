import AdbProofs.Properties.C19Src
import AdbProofs.Properties.C19SrcMatch
import AdbProofs.Properties.C05Src
/-
  C06 (tie to the source, by proof; also what C01 / C19 rest on) — what `_AdbIOManager.read` / `_AdbIOManagerAsync.read` does with a packet it has just read from the device, extracted from the CURRENT
  source by harness/pytrans.py (`read_route_snippet`: the `if not adb_info.args_match(...)` statement and what follows it in its block, with the locks stripped, as a function of the
  packet that also returns `self`, whose store it changes) and proved equal to the routing step of the model's `readIter` (Wire.lean):
    * a packet whose ids do not match this transaction (`Txn.argsMatch`, with `allow_zeros`) is PARKED: the store becomes `Store.put` and nothing is returned to this reader;
    * a matching CLSE clears this stream's queue (`Store.clear`); any other matching packet leaves the store untouched;
    * a matching packet is returned iff its command is expected, as exactly `(cmd, arg0, arg1, data)`; an unexpected matching packet is dropped (returned to nobody, parked nowhere).
    * the two store-draining loops of `read` (`read_drain_snippets`: `x = F; while x: <body>; x = F`, checked syntactically, as ONE iteration): the key looked up is the transaction's
      `(remote_id, local_id)` through `find` / `find_allow_zeros`; nothing parked ⇒ "empty", `self` untouched; otherwise the FIRST parked packet of that key is removed and returned iff
      expected, else the loop looks again — the model's `drainLoop` step (`drainStep`), for every store (`C06_src_read_drain0/1_sync/async`).
    * model side: `routeStep` / `drainStep` are not transcriptions to be trusted — `C06_model_readIter_shape`, `C06_model_route_step` and `C06_model_drainLoop_step` prove that the model's
      `readIter` is "drain, else read one packet and route it", that its routing leaves exactly `routeStep`'s store and result (touching only the observation trace besides), and that one
      unfolding of `drainLoop` is `drainStep`.
  Built from `C19_src_args_match`, `C19_src_put`, `C19_src_clear` — so the per-stream isolation theorems of C01 / C06 / C19, which are about `Store.put` / `Txn.argsMatch`, are about the
  routing the source performs now.  Only property theorems and non-vacuity examples live here.
-/
set_option linter.unusedSimpArgs false
namespace Adb
open Py

/-- the model's routing step (the part of `readIter` after `readPacket`): the new store and what is handed to the reader -/
def routeStep (expected : List Cmd) (t : Txn) (az : Bool) (s : Store) (cmd : Cmd) (a0 a1 : Nat) (data : Bytes) : Store × Option (Cmd × Nat × Nat × Bytes) :=
  if !t.argsMatch a0 a1 az then (s.put a0 a1 cmd data, none)
  else ((if cmd = .CLSE then s.clear a0 a1 else s), (if expected.contains cmd then some (cmd, a0, a1, data) else none))

def encRet : Option (Cmd × Nat × Nat × Bytes) → Py.Val
  | none => .none
  | some (c, a0, a1, d) => .tuple [.bytes c.idBytes, .int a0, .int a1, .bytes d]

theorem Py.getPath_attr (cls : String) (fs : List (String × Py.Val)) (k : String) (v : Py.Val) (h : alookupS k fs = some v) :
    Py.getPath (.obj cls fs) [Py.Acc.attr k] = .ok v := by
  simp [Py.getPath, Py.getAcc, pysimp, h]

/-- Routing of a packet just read from the device (sync class): for every store, transaction (ids possibly `None`), expected-command list, packet and `allow_zeros`, the source returns
    exactly what the model's `routeStep` hands to the reader and leaves exactly the model's new store in `self._packet_store` (the object is untouched when a matching non-CLSE
    packet arrives). -/
theorem C06_src_read_route_sync (mcls scls icls : String) (mfs ifs : List (String × Py.Val)) (s : Store) (t : Txn) (expected : List Cmd) (cmd : Cmd) (a0 a1 : Nat) (az : Bool)
    (data : Bytes) (hs : alookupS "_packet_store" mfs = some (encStore scls s))
    (hl : alookupS "local_id" ifs = some (encOptNat t.localId)) (hr : alookupS "remote_id" ifs = some (encOptNat t.remoteId)) :
    Src.AdbDevice_io_read_route (.obj mcls mfs) (encCmds expected) (.obj icls ifs) (.bool az) (.bytes cmd.idBytes) (.int a0) (.int a1) (.bytes data)
      = .ok (.tuple [encRet (routeStep expected t az s cmd a0 a1 data).2,
                     if t.argsMatch a0 a1 az ∧ cmd ≠ .CLSE then .obj mcls mfs
                     else .obj mcls (asetS "_packet_store" (encStore scls (routeStep expected t az s cmd a0 a1 data).1) mfs)]) := by
  have hb : cmd.idBytes = cmd.bytes := rfl
  have hc : Src.const_CLSE = .bytes Cmd.CLSE.idBytes := rfl
  have hw : (cmd.idBytes == Cmd.CLSE.idBytes) = (cmd == Cmd.CLSE) := idBytes_eq_iff cmd .CLSE
  have hput := C19_src_put scls s a0 a1 cmd data
  have hclr := C19_src_clear scls s a0 a1
  rw [← hb] at hput
  by_cases hm : t.argsMatch a0 a1 az = true
  · by_cases hcl : cmd = .CLSE
    · subst hcl
      by_cases he : Cmd.CLSE ∈ expected <;>
        simp [Src.AdbDevice_io_read_route, pysimp, C19_src_args_match icls ifs t a0 a1 az hl hr, hm, hc, hw, he, Py.getPath_attr _ _ _ _ hs, hclr, encCmds, Py.inV, Py.contains,
          anyEq_idBytes, routeStep, encRet, Py.eqV_bytes_bytes]
    · by_cases he : cmd ∈ expected <;>
        simp [Src.AdbDevice_io_read_route, pysimp, C19_src_args_match icls ifs t a0 a1 az hl hr, hm, hc, hw, hcl, he, Py.getPath_attr _ _ _ _ hs, hclr, encCmds, Py.inV, Py.contains,
          anyEq_idBytes, routeStep, encRet, Py.eqV_bytes_bytes]
  · simp [Src.AdbDevice_io_read_route, pysimp, C19_src_args_match icls ifs t a0 a1 az hl hr, hm, Py.getPath_attr _ _ _ _ hs, hput, routeStep, encRet]

/-- Routing of a packet just read from the device (async twin): the same statement. -/
theorem C06_src_read_route_async (mcls scls icls : String) (mfs ifs : List (String × Py.Val)) (s : Store) (t : Txn) (expected : List Cmd) (cmd : Cmd) (a0 a1 : Nat) (az : Bool)
    (data : Bytes) (hs : alookupS "_packet_store" mfs = some (encStore scls s))
    (hl : alookupS "local_id" ifs = some (encOptNat t.localId)) (hr : alookupS "remote_id" ifs = some (encOptNat t.remoteId)) :
    Src.AdbDeviceAsync_io_read_route (.obj mcls mfs) (encCmds expected) (.obj icls ifs) (.bool az) (.bytes cmd.idBytes) (.int a0) (.int a1) (.bytes data)
      = .ok (.tuple [encRet (routeStep expected t az s cmd a0 a1 data).2,
                     if t.argsMatch a0 a1 az ∧ cmd ≠ .CLSE then .obj mcls mfs
                     else .obj mcls (asetS "_packet_store" (encStore scls (routeStep expected t az s cmd a0 a1 data).1) mfs)]) := by
  have hb : cmd.idBytes = cmd.bytes := rfl
  have hc : Src.const_CLSE = .bytes Cmd.CLSE.idBytes := rfl
  have hw : (cmd.idBytes == Cmd.CLSE.idBytes) = (cmd == Cmd.CLSE) := idBytes_eq_iff cmd .CLSE
  have hput := C19_src_put scls s a0 a1 cmd data
  have hclr := C19_src_clear scls s a0 a1
  rw [← hb] at hput
  by_cases hm : t.argsMatch a0 a1 az = true
  · by_cases hcl : cmd = .CLSE
    · subst hcl
      by_cases he : Cmd.CLSE ∈ expected <;>
        simp [Src.AdbDeviceAsync_io_read_route, pysimp, C19_src_args_match icls ifs t a0 a1 az hl hr, hm, hc, hw, he, Py.getPath_attr _ _ _ _ hs, hclr, encCmds, Py.inV, Py.contains,
          anyEq_idBytes, routeStep, encRet, Py.eqV_bytes_bytes]
    · by_cases he : cmd ∈ expected <;>
        simp [Src.AdbDeviceAsync_io_read_route, pysimp, C19_src_args_match icls ifs t a0 a1 az hl hr, hm, hc, hw, hcl, he, Py.getPath_attr _ _ _ _ hs, hclr, encCmds, Py.inV, Py.contains,
          anyEq_idBytes, routeStep, encRet, Py.eqV_bytes_bytes]
  · simp [Src.AdbDeviceAsync_io_read_route, pysimp, C19_src_args_match icls ifs t a0 a1 az hl hr, hm, Py.getPath_attr _ _ _ _ hs, hput, routeStep, encRet]

/-! ### Non-vacuity: a packet for another stream is parked; a matching expected WRTE is returned and the store is untouched -/
example : routeStep [.WRTE, .CLSE] ⟨some 1, some 7, none, none, none⟩ false [] .WRTE 9 2 [1] = (Store.put [] 9 2 .WRTE [1], none) := rfl
example : routeStep [.WRTE, .CLSE] ⟨some 1, some 7, none, none, none⟩ false [] .WRTE 7 1 [1] = ([], some (.WRTE, 7, 1, [1])) := rfl
example : routeStep [.OKAY] ⟨some 1, some 7, none, none, none⟩ false [] .WRTE 7 1 [1] = ([], none) := rfl
example : Src.AdbDevice_io_read_route (.obj "_AdbIOManager" [("_packet_store", encStore "_AdbPacketStore" [])]) (encCmds [.WRTE, .CLSE])
    (.obj "_AdbTransactionInfo" [("local_id", .int 1), ("remote_id", .int 7)]) (.bool false) (.bytes Cmd.WRTE.idBytes) (.int 9) (.int 2) (.bytes [1])
    = .ok (.tuple [.none, .obj "_AdbIOManager" (asetS "_packet_store" (encStore "_AdbPacketStore" (Store.put [] 9 2 .WRTE [1])) [("_packet_store", encStore "_AdbPacketStore" [])])]) := by
  have h := C06_src_read_route_sync "_AdbIOManager" "_AdbPacketStore" "_AdbTransactionInfo" [("_packet_store", encStore "_AdbPacketStore" [])] [("local_id", .int 1), ("remote_id", .int 7)]
    [] ⟨some 1, some 7, none, none, none⟩ [.WRTE, .CLSE] .WRTE 9 2 false [1] rfl rfl rfl
  exact h.trans rfl

/-- outcome of one iteration of the store-draining loop -/
inductive Drain where
  | empty                                                       -- nothing parked for this transaction: the loop ends
  | ret (p : Cmd × Nat × Nat × Bytes) (s' : Store)              -- a parked packet that is expected: removed and returned
  | again (p : Cmd × Nat × Nat × Bytes) (s' : Store)            -- a parked packet that is not expected: removed, look again

/-- one iteration of the model's `drainLoop` (Wire.lean), as a pure function of the store (`C06_model_drainLoop_step` below); `Store.get`'s error otherwise -/
def drainStep (expected : List Cmd) (t : Txn) (az : Bool) (s : Store) : Except StoreErr Drain :=
  match (if az then s.findAllowZeros t.remoteId t.localId else s.find t.remoteId t.localId) with
  | none => .ok .empty
  | some k =>
    match s.get (some k.1) (some k.2) with
    | .error e => .error e
    | .ok (p, s') => if expected.contains p.1 then .ok (.ret p s') else .ok (.again p s')

/-- what the extracted iteration returns: `((tag, value), self')` -/
def encDrain (mcls scls : String) (mfs : List (String × Py.Val)) : Except StoreErr Drain → Py.M Py.Val
  | .ok .empty => .ok (.tuple [.tuple [.str "empty", .none], .obj mcls mfs])
  | .ok (.ret p s') => .ok (.tuple [.tuple [.str "return", encRet (some p)], .obj mcls (asetS "_packet_store" (encStore scls s') mfs)])
  | .ok (.again _ s') => .ok (.tuple [.tuple [.str "again", .none], .obj mcls (asetS "_packet_store" (encStore scls s') mfs)])
  | .error .typeError => .error .typeError
  | .error .keyError => .error .keyError
  | .error .queueEmpty => .error .queueEmpty

theorem Py.truthy_encOptKey (k : Option (Nat × Nat)) : Py.truthy (encOptKey k) = .ok k.isSome := by
  cases k with
  | none => rfl
  | some p => obtain ⟨a, b⟩ := p; rfl

theorem Py.getItem_pair0 (a b : Py.Val) : Py.getItem (.tuple [a, b]) (.int 0) = .ok a := rfl
theorem Py.getItem_pair1 (a b : Py.Val) : Py.getItem (.tuple [a, b]) (.int 1) = .ok b := rfl

/-- the part of a drain step after the lookup found the key `(k0, k1)` -/
theorem drain_tail (scls : String) (s : Store) (expected : List Cmd) (k0 k1 : Nat) (mcls : String) (mfs : List (String × Py.Val)) :
    (do
      let t14 ← Src.AdbPacketStore_get (encStore scls s) (.int k0) (.int k1)
      let t15 ← unpackN t14.fst 4
      let t16 ← inV (nth t15 0) (encCmds expected)
      if (← Py.truthy t16) = true then
          (Except.ok (Py.Val.tuple [.tuple [.str "return", .tuple [nth t15 0, nth t15 1, nth t15 2, nth t15 3]], .obj mcls (asetS "_packet_store" t14.snd mfs)]) : Py.M Py.Val)
        else
          Except.ok (Py.Val.tuple [.tuple [.str "again", .none], .obj mcls (asetS "_packet_store" t14.snd mfs)]))
      = encDrain mcls scls mfs (match s.get (some k0) (some k1) with
          | .error e => .error e
          | .ok (p, s') => if expected.contains p.1 then .ok (.ret p s') else .ok (.again p s')) := by
  have hg := C19_src_get scls s (some k0) (some k1)
  simp only [encOptNat] at hg
  rw [hg]
  cases hget : s.get (some k0) (some k1) with
  | error e => cases e <;> simp [encDrain, pysimp]
  | ok r =>
    obtain ⟨⟨c, x, y, d⟩, s'⟩ := r
    have hb : c.bytes = c.idBytes := rfl
    by_cases he : c ∈ expected <;>
      simp [encDrain, encRet, pysimp, Py.unpackN, Py.nth, Py.inV, Py.contains, encCmds, hb, anyEq_idBytes, he]

/-- One iteration of the first store-draining loop of `read` (sync class; the loop before the timer starts): for every store, transaction, expected list and `allow_zeros` it looks the
    transaction's key up (`find` / `find_allow_zeros` on `(remote_id, local_id)`), and — exactly like the model's `drainLoop` step — reports "empty" with `self` untouched, or removes the
    first parked packet of that key and returns it iff it is expected ("return"), else looks again ("again"); `Store.get`'s errors are raised as they are. -/
theorem C06_src_read_drain0_sync (mcls scls icls : String) (mfs ifs : List (String × Py.Val)) (s : Store) (t : Txn) (expected : List Cmd) (az : Bool)
    (hs : alookupS "_packet_store" mfs = some (encStore scls s))
    (hl : alookupS "local_id" ifs = some (encOptNat t.localId)) (hr : alookupS "remote_id" ifs = some (encOptNat t.remoteId)) :
    Src.AdbDevice_io_read_drain0 (.obj mcls mfs) (encCmds expected) (.obj icls ifs) (.bool az) = encDrain mcls scls mfs (drainStep expected t az s) := by
  have hf := C19_src_find scls s t.remoteId t.localId
  have hfz := C19_src_find_allow_zeros scls s t.remoteId t.localId
  cases az
  · simp only [Src.AdbDevice_io_read_drain0, pysimp, hs, hl, hr, hf, Bool.not_false, if_true, ite_true, drainStep, Bool.false_eq_true, if_false, ite_false]
    cases hk : Store.find s t.remoteId t.localId with
    | none => simp [encOptKey, pysimp, encDrain, encRet]
    | some k =>
      obtain ⟨k0, k1⟩ := k
      simp only [encOptKey, Py.truthy_encOptKey, pysimp, Option.isSome, if_true, ite_true, Py.getPath_attr _ _ _ _ hs, Py.getItem_pair0, Py.getItem_pair1]
      exact drain_tail scls s expected k0 k1 mcls mfs
  · simp only [Src.AdbDevice_io_read_drain0, pysimp, hs, hl, hr, hfz, Bool.not_true, if_true, ite_true, drainStep, Bool.false_eq_true, if_false, ite_false]
    cases hk : Store.findAllowZeros s t.remoteId t.localId with
    | none => simp [encOptKey, pysimp, encDrain, encRet]
    | some k =>
      obtain ⟨k0, k1⟩ := k
      simp only [encOptKey, Py.truthy_encOptKey, pysimp, Option.isSome, if_true, ite_true, Py.getPath_attr _ _ _ _ hs, Py.getItem_pair0, Py.getItem_pair1]
      exact drain_tail scls s expected k0 k1 mcls mfs

/-- The second store-draining loop of `read` (sync class; the one repeated under the transport lock before every device read): the same statement. -/
theorem C06_src_read_drain1_sync (mcls scls icls : String) (mfs ifs : List (String × Py.Val)) (s : Store) (t : Txn) (expected : List Cmd) (az : Bool)
    (hs : alookupS "_packet_store" mfs = some (encStore scls s))
    (hl : alookupS "local_id" ifs = some (encOptNat t.localId)) (hr : alookupS "remote_id" ifs = some (encOptNat t.remoteId)) :
    Src.AdbDevice_io_read_drain1 (.obj mcls mfs) (encCmds expected) (.obj icls ifs) (.bool az) = encDrain mcls scls mfs (drainStep expected t az s) := by
  have hf := C19_src_find scls s t.remoteId t.localId
  have hfz := C19_src_find_allow_zeros scls s t.remoteId t.localId
  cases az
  · simp only [Src.AdbDevice_io_read_drain1, pysimp, hs, hl, hr, hf, Bool.not_false, if_true, ite_true, drainStep, Bool.false_eq_true, if_false, ite_false]
    cases hk : Store.find s t.remoteId t.localId with
    | none => simp [encOptKey, pysimp, encDrain, encRet]
    | some k =>
      obtain ⟨k0, k1⟩ := k
      simp only [encOptKey, Py.truthy_encOptKey, pysimp, Option.isSome, if_true, ite_true, Py.getPath_attr _ _ _ _ hs, Py.getItem_pair0, Py.getItem_pair1]
      exact drain_tail scls s expected k0 k1 mcls mfs
  · simp only [Src.AdbDevice_io_read_drain1, pysimp, hs, hl, hr, hfz, Bool.not_true, if_true, ite_true, drainStep, Bool.false_eq_true, if_false, ite_false]
    cases hk : Store.findAllowZeros s t.remoteId t.localId with
    | none => simp [encOptKey, pysimp, encDrain, encRet]
    | some k =>
      obtain ⟨k0, k1⟩ := k
      simp only [encOptKey, Py.truthy_encOptKey, pysimp, Option.isSome, if_true, ite_true, Py.getPath_attr _ _ _ _ hs, Py.getItem_pair0, Py.getItem_pair1]
      exact drain_tail scls s expected k0 k1 mcls mfs

/-- First store-draining loop, async twin: the same statement. -/
theorem C06_src_read_drain0_async (mcls scls icls : String) (mfs ifs : List (String × Py.Val)) (s : Store) (t : Txn) (expected : List Cmd) (az : Bool)
    (hs : alookupS "_packet_store" mfs = some (encStore scls s))
    (hl : alookupS "local_id" ifs = some (encOptNat t.localId)) (hr : alookupS "remote_id" ifs = some (encOptNat t.remoteId)) :
    Src.AdbDeviceAsync_io_read_drain0 (.obj mcls mfs) (encCmds expected) (.obj icls ifs) (.bool az) = encDrain mcls scls mfs (drainStep expected t az s) := by
  have hf := C19_src_find scls s t.remoteId t.localId
  have hfz := C19_src_find_allow_zeros scls s t.remoteId t.localId
  cases az
  · simp only [Src.AdbDeviceAsync_io_read_drain0, pysimp, hs, hl, hr, hf, Bool.not_false, if_true, ite_true, drainStep, Bool.false_eq_true, if_false, ite_false]
    cases hk : Store.find s t.remoteId t.localId with
    | none => simp [encOptKey, pysimp, encDrain, encRet]
    | some k =>
      obtain ⟨k0, k1⟩ := k
      simp only [encOptKey, Py.truthy_encOptKey, pysimp, Option.isSome, if_true, ite_true, Py.getPath_attr _ _ _ _ hs, Py.getItem_pair0, Py.getItem_pair1]
      exact drain_tail scls s expected k0 k1 mcls mfs
  · simp only [Src.AdbDeviceAsync_io_read_drain0, pysimp, hs, hl, hr, hfz, Bool.not_true, if_true, ite_true, drainStep, Bool.false_eq_true, if_false, ite_false]
    cases hk : Store.findAllowZeros s t.remoteId t.localId with
    | none => simp [encOptKey, pysimp, encDrain, encRet]
    | some k =>
      obtain ⟨k0, k1⟩ := k
      simp only [encOptKey, Py.truthy_encOptKey, pysimp, Option.isSome, if_true, ite_true, Py.getPath_attr _ _ _ _ hs, Py.getItem_pair0, Py.getItem_pair1]
      exact drain_tail scls s expected k0 k1 mcls mfs

/-- Second store-draining loop, async twin: the same statement. -/
theorem C06_src_read_drain1_async (mcls scls icls : String) (mfs ifs : List (String × Py.Val)) (s : Store) (t : Txn) (expected : List Cmd) (az : Bool)
    (hs : alookupS "_packet_store" mfs = some (encStore scls s))
    (hl : alookupS "local_id" ifs = some (encOptNat t.localId)) (hr : alookupS "remote_id" ifs = some (encOptNat t.remoteId)) :
    Src.AdbDeviceAsync_io_read_drain1 (.obj mcls mfs) (encCmds expected) (.obj icls ifs) (.bool az) = encDrain mcls scls mfs (drainStep expected t az s) := by
  have hf := C19_src_find scls s t.remoteId t.localId
  have hfz := C19_src_find_allow_zeros scls s t.remoteId t.localId
  cases az
  · simp only [Src.AdbDeviceAsync_io_read_drain1, pysimp, hs, hl, hr, hf, Bool.not_false, if_true, ite_true, drainStep, Bool.false_eq_true, if_false, ite_false]
    cases hk : Store.find s t.remoteId t.localId with
    | none => simp [encOptKey, pysimp, encDrain, encRet]
    | some k =>
      obtain ⟨k0, k1⟩ := k
      simp only [encOptKey, Py.truthy_encOptKey, pysimp, Option.isSome, if_true, ite_true, Py.getPath_attr _ _ _ _ hs, Py.getItem_pair0, Py.getItem_pair1]
      exact drain_tail scls s expected k0 k1 mcls mfs
  · simp only [Src.AdbDeviceAsync_io_read_drain1, pysimp, hs, hl, hr, hfz, Bool.not_true, if_true, ite_true, drainStep, Bool.false_eq_true, if_false, ite_false]
    cases hk : Store.findAllowZeros s t.remoteId t.localId with
    | none => simp [encOptKey, pysimp, encDrain, encRet]
    | some k =>
      obtain ⟨k0, k1⟩ := k
      simp only [encOptKey, Py.truthy_encOptKey, pysimp, Option.isSome, if_true, ite_true, Py.getPath_attr _ _ _ _ hs, Py.getItem_pair0, Py.getItem_pair1]
      exact drain_tail scls s expected k0 k1 mcls mfs

/-- The model side: one unfolding of the model's `drainLoop` is `drainStep` on the world's store — "empty" ends the loop with the world untouched, an expected parked packet is
    delivered (store updated, `deliver` recorded), an unexpected one is removed (`unstore` recorded) and the loop goes on, a `Store.get` error is raised with the world untouched. -/
theorem C06_model_drainLoop_step (expected : List Cmd) (t : Txn) (az : Bool) (fuel : Nat) (w : World) :
    drainLoop expected t az (fuel + 1) w
      = match drainStep expected t az w.store with
        | .ok .empty => (.ok none, w)
        | .ok (.ret (c, a0, a1, d) s') => (.ok (some ⟨c, a0, a1, d⟩), { w with store := s', trace := .deliver ⟨c, a0, a1, d⟩ :: w.trace })
        | .ok (.again (c, a0, a1, d) s') => drainLoop expected t az fuel { w with store := s', trace := .unstore ⟨c, a0, a1, d⟩ :: w.trace }
        | .error e => (.error (storeErr e), w) := by
  simp only [drainLoop, drainStep, storeFind, storeGet, bind, M.bind, pure, M.pure, emit, M.modify]
  cases az <;> simp only [Bool.false_eq_true, if_false, ite_false, if_true, ite_true]
  · cases hk : w.store.find t.remoteId t.localId with
    | none => rfl
    | some k =>
      simp only []
      cases hg : w.store.get (some k.1) (some k.2) with
      | error e => simp [M.bind, storeGet, hg]
      | ok r =>
        obtain ⟨⟨c, a0, a1, d⟩, s'⟩ := r
        by_cases he : c ∈ expected <;> simp [M.bind, storeGet, hg, he, M.modify, M.pure]
  · cases hk : w.store.findAllowZeros t.remoteId t.localId with
    | none => rfl
    | some k =>
      simp only []
      cases hg : w.store.get (some k.1) (some k.2) with
      | error e => simp [M.bind, storeGet, hg]
      | ok r =>
        obtain ⟨⟨c, a0, a1, d⟩, s'⟩ := r
        by_cases he : c ∈ expected <;> simp [M.bind, storeGet, hg, he, M.modify, M.pure]

/-- the tail of the model's `readIter` after `readPacket` (verbatim) -/
def routeM (expected : List Cmd) (t : Txn) (allowZeros : Bool) (p : Pkt) : M (Option Pkt) :=
  if !t.argsMatch p.arg0 p.arg1 allowZeros then do
    withLock lockStore (storePut p)
    pure none
  else do
    if p.cmd = Cmd.CLSE then withLock lockStore (storeClear p.arg0 p.arg1)
    if expected.contains p.cmd then do emit (.deliver p); pure (some p)
    else do emit (.drop p); pure none

/-- `readIter` is: under the transport lock, drain the store; if nothing was returned, read one packet and route it with `routeM`. -/
theorem C06_model_readIter_shape (expected : List Cmd) (t : Txn) (az : Bool) :
    readIter expected t az = withLock lockTransport (do
      let w ← M.get
      match (← withLock lockStore (drainLoop expected t az w.fuel)) with
      | some p => pure (some p)
      | none => do
        let p ← readPacket t
        routeM expected t az p) := rfl

/-- The model side of the routing step: whenever the store lock is free, `routeM` never fails, leaves exactly `routeStep`'s store, hands the reader exactly `routeStep`'s packet,
    and changes nothing else in the world but the observation trace. -/
theorem C06_model_route_step (expected : List Cmd) (t : Txn) (az : Bool) (p : Pkt) (w : World) (hfree : lockStore ∉ w.locks) :
    routeM expected t az p w
      = (.ok ((routeStep expected t az w.store p.cmd p.arg0 p.arg1 p.data).2.map fun q => ⟨q.1, q.2.1, q.2.2.1, q.2.2.2⟩),
         { w with store := (routeStep expected t az w.store p.cmd p.arg0 p.arg1 p.data).1,
                  trace := (if t.argsMatch p.arg0 p.arg1 az then (if expected.contains p.cmd then TEv.deliver p else TEv.drop p)
                            else (if p.cmd = Cmd.CLSE ∧ w.store.queue p.arg0 p.arg1 = none then TEv.lost p else TEv.park p)) :: w.trace }) := by
  obtain ⟨c, a0, a1, d⟩ := p
  by_cases hm : t.argsMatch a0 a1 az = true
  · by_cases hc : c = .CLSE
    · subst hc
      by_cases he : Cmd.CLSE ∈ expected <;>
        simp [routeM, routeStep, hm, he, withLock, hfree, storeClear, M.modify, emit, bind, M.bind, pure, M.pure, List.erase_cons_head]
    · by_cases he : c ∈ expected <;>
        simp [routeM, routeStep, hm, hc, he, withLock, hfree, storeClear, M.modify, emit, bind, M.bind, pure, M.pure, List.erase_cons_head]
  · simp [routeM, routeStep, hm, withLock, hfree, storePut, bind, M.bind, pure, M.pure, List.erase_cons_head]

/-! ### Non-vacuity: with WRTE [1] then CLSE parked for (7, 1) and the reader expecting CLSE only, the first step removes the WRTE and looks again, the second returns the CLSE -/
example : ∃ s', drainStep [.CLSE] ⟨some 1, some 7, none, none, none⟩ false (Store.put (Store.put [] 7 1 .WRTE [1]) 7 1 .CLSE []) = .ok (.again (.WRTE, 7, 1, [1]) s')
    ∧ drainStep [.CLSE] ⟨some 1, some 7, none, none, none⟩ false s' = .ok (.ret (.CLSE, 7, 1, []) []) := ⟨_, rfl, rfl⟩
example : drainStep [.CLSE] ⟨some 1, some 7, none, none, none⟩ false [] = .ok .empty := rfl

end Adb
