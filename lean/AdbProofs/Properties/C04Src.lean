import AdbProofs.Lemmas.SrcLoops
import AdbProofs.Properties.C02Src
/-
  C04 (tie to the source, by proof) — the stream primitives of the device class: `_okay`, `_clse`, `_read_until` and the loop of `_read_until_close`, in both twins.
  harness/pytrans.py turns the CURRENT source of each into pure functions by making the results of the calls it performs (`self._io_manager.send`, `self._io_manager.read`,
  `self._read_until`, `self._okay`, `yield`) parameters and cutting the method at each call ("the request it makes when it gets that far"). The theorems state, about
  those translations, the clauses of C04 that concern what the HOST sends on a stream:
    * every OKAY and every CLSE the host builds carries (the stream's local id, the remote id the device announced) and no payload;
    * `_read_until` reads with `allow_zeros=True` and acknowledges with exactly one `_okay` exactly when what it was handed is a WRTE — no OKAY otherwise;
    * `_clse` sends one CLSE and then waits for the device's CLSE; `_read_until_close` answers a device CLSE with one CLSE and leaves the loop, and otherwise yields
      the payload it was handed (nothing else) and checks the whole-command limit.
  Only property theorems live here.
-/
set_option linter.unusedSimpArgs false
namespace Adb
open Py

/-- the (command, arg0, arg1, data) tuple `_AdbIOManager.read` returns -/
def encRead (c : Cmd) (a0 a1 : Nat) (d : Bytes) : Py.Val := .tuple [.bytes c.idBytes, .int a0, .int a1, .bytes d]

theorem const_ids : Src.const_OKAY = .bytes Cmd.OKAY.idBytes ∧ Src.const_CLSE = .bytes Cmd.CLSE.idBytes ∧ Src.const_WRTE = .bytes Cmd.WRTE.idBytes
    ∧ Src.const_OPEN = .bytes Cmd.OPEN.idBytes := ⟨rfl, rfl, rfl, rfl⟩

theorem idBytes_eq_iff (c d : Cmd) : (c.idBytes == d.idBytes) = (c == d) := by cases c <;> cases d <;> decide


/-- `_okay` (sync): the one message it sends is OKAY(local id, remote id) without payload, on this transaction; then it is done. -/
theorem C04_src_okay_sync (cls : String) (fs : List (String × Py.Val)) (l r : Nat) (eff0 : Py.Val)
    (hl : alookupS "local_id" fs = some (.int l)) (hr : alookupS "remote_id" fs = some (.int r)) :
    Src.AdbDevice_okay_eff0_args (.obj cls fs) = .ok (.tuple [.str "request", .str "_io_manager.send", encMsg "AdbMessage" ⟨.OKAY, l, r, []⟩, .obj cls fs])
      ∧ Src.AdbDevice_okay_fn (.obj cls fs) eff0 = .ok .none := by
  constructor <;>
    simp [Src.AdbDevice_okay_eff0_args, Src.AdbDevice_okay_fn, pysimp, hl, hr, const_ids.1, Py.newObj, C02_src_msg_init]

/-- `_clse` (sync): first it sends CLSE(local id, remote id) without payload; then it waits for the device's CLSE through `_read_until([CLSE])`; then it is done. -/
theorem C04_src_clse_sync (cls : String) (fs : List (String × Py.Val)) (l r : Nat) (eff0 eff1 : Py.Val)
    (hl : alookupS "local_id" fs = some (.int l)) (hr : alookupS "remote_id" fs = some (.int r)) :
    Src.AdbDevice_clse_eff0_args (.obj cls fs) = .ok (.tuple [.str "request", .str "_io_manager.send", encMsg "AdbMessage" ⟨.CLSE, l, r, []⟩, .obj cls fs])
      ∧ Src.AdbDevice_clse_eff1_args (.obj cls fs) eff0 = .ok (.tuple [.str "request", .str "_read_until", .list [.bytes Cmd.CLSE.idBytes], .obj cls fs])
      ∧ Src.AdbDevice_clse_fn (.obj cls fs) eff0 eff1 = .ok .none := by
  refine ⟨?_, ?_, ?_⟩ <;>
    simp [Src.AdbDevice_clse_eff0_args, Src.AdbDevice_clse_eff1_args, Src.AdbDevice_clse_fn, pysimp, hl, hr, const_ids.2.1, Py.newObj, C02_src_msg_init]

/-- `_read_until` (sync): it reads with `allow_zeros=True`; handed the packet `(c, a0, a1, d)` it requests exactly one `_okay` iff `c` is WRTE (and nothing
    otherwise), and returns `(c, d)` — the payload it was handed, unchanged. -/
theorem C04_src_read_until_sync (expected info eff1 : Py.Val) (c : Cmd) (a0 a1 : Nat) (d : Bytes) :
    Src.AdbDevice_read_until_eff0_args expected info
        = .ok (.tuple [.str "request", .str "_io_manager.read", expected, info, .tuple [.str "allow_zeros", .bool true]])
      ∧ Src.AdbDevice_read_until_eff1_args expected info (encRead c a0 a1 d)
        = (if c = .WRTE then .ok (.tuple [.str "request", .str "_okay", info]) else .ok (.tuple [.bytes c.idBytes, .bytes d]))
      ∧ Src.AdbDevice_read_until_fn expected info (encRead c a0 a1 d) eff1 = .ok (.tuple [.bytes c.idBytes, .bytes d]) := by
  have hw : (c.idBytes == Cmd.WRTE.idBytes) = (c == Cmd.WRTE) := idBytes_eq_iff c .WRTE
  refine ⟨?_, ?_, ?_⟩
  · simp [Src.AdbDevice_read_until_eff0_args, pysimp]
  · by_cases h : c = .WRTE <;>
      simp [Src.AdbDevice_read_until_eff1_args, pysimp, encRead, Py.unpackN, Py.nth, const_ids.2.2.1, Py.eqV, Py.eq, hw, h, bind, Except.bind, pure, Except.pure]
  · by_cases h : c = .WRTE <;>
      simp [Src.AdbDevice_read_until_fn, pysimp, encRead, Py.unpackN, Py.nth, const_ids.2.2.1, Py.eqV, Py.eq, hw, h, bind, Except.bind, pure, Except.pure]

/-- One iteration of `_read_until_close` (sync), handed `(c, d)` by `_read_until([CLSE, WRTE])`: for a device CLSE it requests exactly one send of
    CLSE(local id, remote id) and leaves the loop (nothing is yielded); for anything else it yields exactly `d`. -/
theorem C04_src_read_until_close_requests_sync (cls : String) (fs : List (String × Py.Val)) (l r : Nat) (cmd0 data0 msg0 start now eff1 : Py.Val) (c : Cmd) (d : Bytes)
    (hl : alookupS "local_id" fs = some (.int l)) (hr : alookupS "remote_id" fs = some (.int r)) :
    Src.AdbDevice_read_until_close_eff0_args (.obj cls fs) cmd0 data0 msg0 start now
        = .ok (.tuple [.str "request", .str "_read_until", .list [.bytes Cmd.CLSE.idBytes, .bytes Cmd.WRTE.idBytes], .obj cls fs])
      ∧ (c = .CLSE → Src.AdbDevice_read_until_close_eff1_args (.obj cls fs) cmd0 data0 msg0 start (.tuple [.bytes c.idBytes, .bytes d]) now
            = .ok (.tuple [.str "request", .str "_io_manager.send", encMsg "AdbMessage" ⟨.CLSE, l, r, []⟩, .obj cls fs]))
      ∧ (c = .CLSE → ∃ m, Src.AdbDevice_read_until_close_eff2_args (.obj cls fs) cmd0 data0 msg0 start (.tuple [.bytes c.idBytes, .bytes d]) eff1 now
            = .ok (.tuple [.str "break", .bytes c.idBytes, .bytes d, m]))
      ∧ (c ≠ .CLSE → Src.AdbDevice_read_until_close_eff2_args (.obj cls fs) cmd0 data0 msg0 start (.tuple [.bytes c.idBytes, .bytes d]) eff1 now
            = .ok (.tuple [.str "request", .str "yield", .bytes d])) := by
  have hw : (c.idBytes == Cmd.CLSE.idBytes) = (c == Cmd.CLSE) := idBytes_eq_iff c .CLSE
  refine ⟨?_, ?_, ?_, ?_⟩
  · simp [Src.AdbDevice_read_until_close_eff0_args, pysimp, const_ids.2.1, const_ids.2.2.1]
  · intro h
    simp [Src.AdbDevice_read_until_close_eff1_args, pysimp, Py.unpackN, Py.nth, const_ids.2.1, Py.eqV, Py.eq, hw, h, hl, hr, Py.newObj, C02_src_msg_init, bind, Except.bind, pure, Except.pure]
  · intro h
    refine ⟨encMsg "AdbMessage" ⟨.CLSE, l, r, []⟩, ?_⟩
    simp [Src.AdbDevice_read_until_close_eff2_args, pysimp, Py.unpackN, Py.nth, const_ids.2.1, Py.eqV, Py.eq, hw, h, hl, hr, Py.newObj, C02_src_msg_init, bind, Except.bind, pure, Except.pure]
  · intro h
    simp [Src.AdbDevice_read_until_close_eff2_args, pysimp, Py.unpackN, Py.nth, const_ids.2.1, Py.eqV, Py.eq, hw, h, bind, Except.bind, pure, Except.pure]

/-- `_okay` (async twin): the one message it sends is OKAY(local id, remote id) without payload, on this transaction; then it is done. -/
theorem C04_src_okay_async (cls : String) (fs : List (String × Py.Val)) (l r : Nat) (eff0 : Py.Val)
    (hl : alookupS "local_id" fs = some (.int l)) (hr : alookupS "remote_id" fs = some (.int r)) :
    Src.AdbDeviceAsync_okay_eff0_args (.obj cls fs) = .ok (.tuple [.str "request", .str "_io_manager.send", encMsg "AdbMessage" ⟨.OKAY, l, r, []⟩, .obj cls fs])
      ∧ Src.AdbDeviceAsync_okay_fn (.obj cls fs) eff0 = .ok .none := by
  constructor <;>
    simp [Src.AdbDeviceAsync_okay_eff0_args, Src.AdbDeviceAsync_okay_fn, pysimp, hl, hr, const_ids.1, Py.newObj, C02_src_msg_init]

/-- `_clse` (async twin): first it sends CLSE(local id, remote id) without payload; then it waits for the device's CLSE through `_read_until([CLSE])`; then it is done. -/
theorem C04_src_clse_async (cls : String) (fs : List (String × Py.Val)) (l r : Nat) (eff0 eff1 : Py.Val)
    (hl : alookupS "local_id" fs = some (.int l)) (hr : alookupS "remote_id" fs = some (.int r)) :
    Src.AdbDeviceAsync_clse_eff0_args (.obj cls fs) = .ok (.tuple [.str "request", .str "_io_manager.send", encMsg "AdbMessage" ⟨.CLSE, l, r, []⟩, .obj cls fs])
      ∧ Src.AdbDeviceAsync_clse_eff1_args (.obj cls fs) eff0 = .ok (.tuple [.str "request", .str "_read_until", .list [.bytes Cmd.CLSE.idBytes], .obj cls fs])
      ∧ Src.AdbDeviceAsync_clse_fn (.obj cls fs) eff0 eff1 = .ok .none := by
  refine ⟨?_, ?_, ?_⟩ <;>
    simp [Src.AdbDeviceAsync_clse_eff0_args, Src.AdbDeviceAsync_clse_eff1_args, Src.AdbDeviceAsync_clse_fn, pysimp, hl, hr, const_ids.2.1, Py.newObj, C02_src_msg_init]

/-- `_read_until` (async twin): it reads with `allow_zeros=True`; handed the packet `(c, a0, a1, d)` it requests exactly one `_okay` iff `c` is WRTE (and nothing
    otherwise), and returns `(c, d)` — the payload it was handed, unchanged. -/
theorem C04_src_read_until_async (expected info eff1 : Py.Val) (c : Cmd) (a0 a1 : Nat) (d : Bytes) :
    Src.AdbDeviceAsync_read_until_eff0_args expected info
        = .ok (.tuple [.str "request", .str "_io_manager.read", expected, info, .tuple [.str "allow_zeros", .bool true]])
      ∧ Src.AdbDeviceAsync_read_until_eff1_args expected info (encRead c a0 a1 d)
        = (if c = .WRTE then .ok (.tuple [.str "request", .str "_okay", info]) else .ok (.tuple [.bytes c.idBytes, .bytes d]))
      ∧ Src.AdbDeviceAsync_read_until_fn expected info (encRead c a0 a1 d) eff1 = .ok (.tuple [.bytes c.idBytes, .bytes d]) := by
  have hw : (c.idBytes == Cmd.WRTE.idBytes) = (c == Cmd.WRTE) := idBytes_eq_iff c .WRTE
  refine ⟨?_, ?_, ?_⟩
  · simp [Src.AdbDeviceAsync_read_until_eff0_args, pysimp]
  · by_cases h : c = .WRTE <;>
      simp [Src.AdbDeviceAsync_read_until_eff1_args, pysimp, encRead, Py.unpackN, Py.nth, const_ids.2.2.1, Py.eqV, Py.eq, hw, h, bind, Except.bind, pure, Except.pure]
  · by_cases h : c = .WRTE <;>
      simp [Src.AdbDeviceAsync_read_until_fn, pysimp, encRead, Py.unpackN, Py.nth, const_ids.2.2.1, Py.eqV, Py.eq, hw, h, bind, Except.bind, pure, Except.pure]

/-- One iteration of `_read_until_close` (async twin), handed `(c, d)` by `_read_until([CLSE, WRTE])`: for a device CLSE it requests exactly one send of
    CLSE(local id, remote id) and leaves the loop (nothing is yielded); for anything else it yields exactly `d`. -/
theorem C04_src_read_until_close_requests_async (cls : String) (fs : List (String × Py.Val)) (l r : Nat) (cmd0 data0 msg0 start now eff1 : Py.Val) (c : Cmd) (d : Bytes)
    (hl : alookupS "local_id" fs = some (.int l)) (hr : alookupS "remote_id" fs = some (.int r)) :
    Src.AdbDeviceAsync_read_until_close_eff0_args (.obj cls fs) cmd0 data0 msg0 start now
        = .ok (.tuple [.str "request", .str "_read_until", .list [.bytes Cmd.CLSE.idBytes, .bytes Cmd.WRTE.idBytes], .obj cls fs])
      ∧ (c = .CLSE → Src.AdbDeviceAsync_read_until_close_eff1_args (.obj cls fs) cmd0 data0 msg0 start (.tuple [.bytes c.idBytes, .bytes d]) now
            = .ok (.tuple [.str "request", .str "_io_manager.send", encMsg "AdbMessage" ⟨.CLSE, l, r, []⟩, .obj cls fs]))
      ∧ (c = .CLSE → ∃ m, Src.AdbDeviceAsync_read_until_close_eff2_args (.obj cls fs) cmd0 data0 msg0 start (.tuple [.bytes c.idBytes, .bytes d]) eff1 now
            = .ok (.tuple [.str "break", .bytes c.idBytes, .bytes d, m]))
      ∧ (c ≠ .CLSE → Src.AdbDeviceAsync_read_until_close_eff2_args (.obj cls fs) cmd0 data0 msg0 start (.tuple [.bytes c.idBytes, .bytes d]) eff1 now
            = .ok (.tuple [.str "request", .str "yield", .bytes d])) := by
  have hw : (c.idBytes == Cmd.CLSE.idBytes) = (c == Cmd.CLSE) := idBytes_eq_iff c .CLSE
  refine ⟨?_, ?_, ?_, ?_⟩
  · simp [Src.AdbDeviceAsync_read_until_close_eff0_args, pysimp, const_ids.2.1, const_ids.2.2.1]
  · intro h
    simp [Src.AdbDeviceAsync_read_until_close_eff1_args, pysimp, Py.unpackN, Py.nth, const_ids.2.1, Py.eqV, Py.eq, hw, h, hl, hr, Py.newObj, C02_src_msg_init, bind, Except.bind, pure, Except.pure]
  · intro h
    refine ⟨encMsg "AdbMessage" ⟨.CLSE, l, r, []⟩, ?_⟩
    simp [Src.AdbDeviceAsync_read_until_close_eff2_args, pysimp, Py.unpackN, Py.nth, const_ids.2.1, Py.eqV, Py.eq, hw, h, hl, hr, Py.newObj, C02_src_msg_init, bind, Except.bind, pure, Except.pure]
  · intro h
    simp [Src.AdbDeviceAsync_read_until_close_eff2_args, pysimp, Py.unpackN, Py.nth, const_ids.2.1, Py.eqV, Py.eq, hw, h, bind, Except.bind, pure, Except.pure]


/-- `_open` (sync), up to its first request: with the counter at `c`, the source allocates `nextId c` (increment-and-wrap), builds the transaction info through the
    translated `_AdbTransactionInfo.__init__` (local id = the new id, remote id `None`, transport timeout = the argument or the object's default, normalised as in C11)
    and asks the I/O manager to send exactly OPEN(new id, 0, destination + NUL) on that transaction; when the timeout normalisation raises `TypeError`, nothing is sent. -/
theorem C04_src_open_request_sync (cls : String) (fs : List (String × Py.Val)) (c : Nat) (dest : Bytes) (tt rt total dtt : Timeout)
    (hid : alookupS "_local_id" fs = some (.int c)) (hd : alookupS "_default_transport_timeout_s" fs = some (encTimeout dtt)) :
    match Txn.make (some (nextId c)) none (if tt.isSome then tt else dtt) rt total with
    | .ok t => ∃ ifs, Src.AdbDevice_open_eff0_args (.obj cls fs) (.bytes dest) (encTimeout tt) (encTimeout rt) (encTimeout total)
          = .ok (.tuple [.str "request", .str "_io_manager.send", encMsg "AdbMessage" ⟨.OPEN, nextId c, 0, dest ++ [0]⟩, .obj "_AdbTransactionInfo" ifs])
        ∧ alookupS "local_id" ifs = some (.int (nextId c)) ∧ alookupS "remote_id" ifs = some .none
        ∧ alookupS "transport_timeout_s" ifs = some (encTimeout t.tt) ∧ alookupS "read_timeout_s" ifs = some (encTimeout t.rt)
        ∧ alookupS "timeout_s" ifs = some (encTimeout t.total)
    | .error _ => Src.AdbDevice_open_eff0_args (.obj cls fs) (.bytes dest) (encTimeout tt) (encTimeout rt) (encTimeout total) = .error .typeError := by
  have hopen : Src.const_OPEN = .bytes Cmd.OPEN.idBytes := rfl
  by_cases hw : c + 1 = 4294967296
  · have e1 : (c : Int) + 1 = 4294967296 := by omega
    have hn : nextId c = 1 := by simp [nextId, hw]
    have m := C02_src_msg_init "AdbMessage" Cmd.OPEN 1 0 (dest ++ [0])
    simp only [Int.natCast_zero, Int.natCast_one] at m
    cases tt <;> cases rt <;> cases total <;> cases dtt <;>
      simp [Src.AdbDevice_open_eff0_args, Src.AdbDevice_get_transport_timeout_s, Src.AdbTransactionInfo_init, Txn.make, pyMin, encTimeout, pysimp, hid, hd, e1, hn, hopen,
        alookupS, asetS, Py.newObj, m, bind, Except.bind, pure, Except.pure]
  · have e1 : ¬ (c : Int) + 1 = 4294967296 := by omega
    have hn : nextId c = c + 1 := by simp [nextId, hw]
    have e2 : ((c : Int) + 1) = ((c + 1 : Nat) : Int) := by omega
    have m := C02_src_msg_init "AdbMessage" Cmd.OPEN (c + 1) 0 (dest ++ [0])
    simp only [Int.natCast_zero, Int.natCast_add, Int.natCast_one] at m
    cases tt <;> cases rt <;> cases total <;> cases dtt <;>
      simp [Src.AdbDevice_open_eff0_args, Src.AdbDevice_get_transport_timeout_s, Src.AdbTransactionInfo_init, Txn.make, pyMin, encTimeout, pysimp, hid, hd, e1, hn, hopen,
        alookupS, asetS, Py.newObj, m, Int.natCast_add, Int.natCast_one, bind, Except.bind, pure, Except.pure]

/-- `_open` (async twin), up to its first request: with the counter at `c`, the source allocates `nextId c` (increment-and-wrap), builds the transaction info through the
    translated `_AdbTransactionInfo.__init__` (local id = the new id, remote id `None`, transport timeout = the argument or the object's default, normalised as in C11)
    and asks the I/O manager to send exactly OPEN(new id, 0, destination + NUL) on that transaction; when the timeout normalisation raises `TypeError`, nothing is sent. -/
theorem C04_src_open_request_async (cls : String) (fs : List (String × Py.Val)) (c : Nat) (dest : Bytes) (tt rt total dtt : Timeout)
    (hid : alookupS "_local_id" fs = some (.int c)) (hd : alookupS "_default_transport_timeout_s" fs = some (encTimeout dtt)) :
    match Txn.make (some (nextId c)) none (if tt.isSome then tt else dtt) rt total with
    | .ok t => ∃ ifs, Src.AdbDeviceAsync_open_eff0_args (.obj cls fs) (.bytes dest) (encTimeout tt) (encTimeout rt) (encTimeout total)
          = .ok (.tuple [.str "request", .str "_io_manager.send", encMsg "AdbMessage" ⟨.OPEN, nextId c, 0, dest ++ [0]⟩, .obj "_AdbTransactionInfo" ifs])
        ∧ alookupS "local_id" ifs = some (.int (nextId c)) ∧ alookupS "remote_id" ifs = some .none
        ∧ alookupS "transport_timeout_s" ifs = some (encTimeout t.tt) ∧ alookupS "read_timeout_s" ifs = some (encTimeout t.rt)
        ∧ alookupS "timeout_s" ifs = some (encTimeout t.total)
    | .error _ => Src.AdbDeviceAsync_open_eff0_args (.obj cls fs) (.bytes dest) (encTimeout tt) (encTimeout rt) (encTimeout total) = .error .typeError := by
  have hopen : Src.const_OPEN = .bytes Cmd.OPEN.idBytes := rfl
  by_cases hw : c + 1 = 4294967296
  · have e1 : (c : Int) + 1 = 4294967296 := by omega
    have hn : nextId c = 1 := by simp [nextId, hw]
    have m := C02_src_msg_init "AdbMessage" Cmd.OPEN 1 0 (dest ++ [0])
    simp only [Int.natCast_zero, Int.natCast_one] at m
    cases tt <;> cases rt <;> cases total <;> cases dtt <;>
      simp [Src.AdbDeviceAsync_open_eff0_args, Src.AdbDeviceAsync_get_transport_timeout_s, Src.AdbTransactionInfo_init, Txn.make, pyMin, encTimeout, pysimp, hid, hd, e1, hn, hopen,
        alookupS, asetS, Py.newObj, m, bind, Except.bind, pure, Except.pure]
  · have e1 : ¬ (c : Int) + 1 = 4294967296 := by omega
    have hn : nextId c = c + 1 := by simp [nextId, hw]
    have e2 : ((c : Int) + 1) = ((c + 1 : Nat) : Int) := by omega
    have m := C02_src_msg_init "AdbMessage" Cmd.OPEN (c + 1) 0 (dest ++ [0])
    simp only [Int.natCast_zero, Int.natCast_add, Int.natCast_one] at m
    cases tt <;> cases rt <;> cases total <;> cases dtt <;>
      simp [Src.AdbDeviceAsync_open_eff0_args, Src.AdbDeviceAsync_get_transport_timeout_s, Src.AdbTransactionInfo_init, Txn.make, pyMin, encTimeout, pysimp, hid, hd, e1, hn, hopen,
        alookupS, asetS, Py.newObj, m, Int.natCast_add, Int.natCast_one, bind, Except.bind, pure, Except.pure]

end Adb
