import AdbProofs.Lemmas.KeysLemmas
import AdbProofs.Lemmas.KeysExample
/-
  C17 — key material is what adbd expects: signatures verify, the public key blob is correct.

  Model: `AdbModel/Keys.lean` (`Adb.Keys`).  `sign` is what all three shipped signer classes
  compute (checked byte-for-byte by harness/units/c17.py on freshly generated keys), `verify` is
  adbd's `RSA_verify(NID_sha1, token, sig)`, `blob`/`pubFile` is what `keygen` writes.
  `ValidKey n e d p q` (AdbProofs/Lemmas/KeysLemmas.lean) says: `p`, `q` distinct primes,
  `n = p*q` has exactly 2048 bits, `e*d ≡ 1` modulo `p-1` and modulo `q-1`.
  Trusted, not proved: that the key generator returns primes, and SHA-1/DER constants of RFC 8017.
-/
namespace Adb
open Keys

/-- Square-and-multiply computes the modular power: `powMod b e m = b^e mod m`, for every modulus
    (for `m = 1` both sides are `0`; even `m = 0`, where Python raises, agrees with Lean's `%`). -/
theorem C17_powMod_eq (b e m : Nat) : powMod b e m = b ^ e % m := powMod_eq b e m

/-- RSA round trip (Fermat + CRT): for distinct primes `p`, `q` and exponents with
    `e*d ≡ 1 (mod p-1)` and `(mod q-1)`, raising to `d` then `e` — or `e` then `d` — is the identity
    modulo `p*q`, for EVERY `x` (also those sharing a factor with the modulus). -/
theorem C17_rsa_roundtrip {p q e d : Nat} (hp : p.Prime) (hq : q.Prime) (hpq : p ≠ q)
    (hd : ∃ kp kq, e * d = 1 + kp * (p - 1) ∧ e * d = 1 + kq * (q - 1)) (x : Nat) :
    (x ^ d) ^ e % (p * q) = x % (p * q) ∧ (x ^ e) ^ d % (p * q) = x % (p * q) := by
  constructor
  · rw [← pow_mul, Nat.mul_comm d e]; exact rsa_exp hp hq hpq hd x
  · rw [← pow_mul]; exact rsa_exp hp hq hpq hd x

/-- Big-endian and little-endian integer/byte-string conversions are mutually inverse on their
    domains (`n < 256^len`, resp. byte strings of length `len`). -/
theorem C17_os2ip_i2osp {len n : Nat} (h : n < 256 ^ len) :
    os2ip (i2osp len n) = n ∧ leNat (leBytes len n) = n
      ∧ (i2osp len n).length = len ∧ (leBytes len n).length = len :=
  ⟨os2ip_i2osp h, leNat_leBytes h, i2osp_length len n, leBytes_length len n⟩

/-- Converse direction: a byte string of length `len` is recovered from its integer value, which
    is below `256^len`. -/
theorem C17_i2osp_os2ip {len : Nat} {bs : Bytes} (h : bs.length = len) :
    i2osp len (os2ip bs) = bs ∧ leBytes len (leNat bs) = bs
      ∧ os2ip bs < 256 ^ len ∧ leNat bs < 256 ^ len := by
  subst h
  exact ⟨i2osp_os2ip rfl, leBytes_leNat bs, os2ip_lt bs, leNat_lt bs⟩

/-- The encoded message for a 20-byte token is exactly 256 bytes laid out as
    `00 01 | FF × 218 | 00 | 30 21 30 09 06 05 2b 0e 03 02 1a 05 00 04 14 | token`
    (the DigestInfo of a SHA-1 digest), and as an integer it is below `2^2033`, hence below every
    2048-bit modulus. -/
theorem C17_emsa_shape {token : Bytes} (h : token.length = 20) :
    (emsa token 256).length = 256
    ∧ emsa token 256 = [0x00, 0x01] ++ List.replicate 218 0xFF ++ [0x00]
        ++ [0x30, 0x21, 0x30, 0x09, 0x06, 0x05, 0x2b, 0x0e, 0x03, 0x02, 0x1a, 0x05, 0x00, 0x04, 0x14]
        ++ token
    ∧ os2ip (emsa token 256) < 2 ^ 2033
    ∧ (∀ n, 2 ^ 2047 ≤ n → os2ip (emsa token 256) < n) := by
  refine ⟨emsa_length h, ?_, emsa_lt h, fun n hn => ?_⟩
  · rw [emsa_layout h]; simp only [sha1Prefix, List.append_assoc]
  · exact lt_of_lt_of_le (emsa_lt h) (le_trans two_pow_2033_le hn)

/-- A signature made with the private key verifies under the public key exactly as adbd checks
    it, for every valid 2048-bit key and every 20-byte token. -/
theorem C17_sign_verifies {n e d p q : Nat} (k : ValidKey n e d p q) {token : Bytes}
    (ht : token.length = 20) : verify n e token (sign n d token) = true :=
  sign_verifies k ht

/-- The signature is unique: any 256-byte string in range (`< n`) that adbd accepts for the token
    IS `sign n d token`. -/
theorem C17_signature_unique {n e d p q : Nat} (k : ValidKey n e d p q) {token s : Bytes}
    (hv : verify n e token s = true) (hl : s.length = 256) (hs : os2ip s < n) :
    s = sign n d token :=
  signature_unique k hv hl hs

/-- The signers are interchangeable: two signers whose 256-byte, in-range outputs both verify
    return the same bytes (no length hypothesis on the token is needed). -/
theorem C17_signers_interchangeable {n e d p q : Nat} (k : ValidKey n e d p q) {token s₁ s₂ : Bytes}
    (h₁ : verify n e token s₁ = true) (l₁ : s₁.length = 256) (r₁ : os2ip s₁ < n)
    (h₂ : verify n e token s₂ = true) (l₂ : s₂.length = 256) (r₂ : os2ip s₂ < n) : s₁ = s₂ :=
  (signature_unique k h₁ l₁ r₁).trans (signature_unique k h₂ l₂ r₂).symm

/-- The model's signature is itself a 256-byte string in range, so `C17_signature_unique` applies
    to it and to anything equal to it. -/
theorem C17_sign_in_range {n d : Nat} (hn : 0 < n) (token : Bytes) (hi : n < 2 ^ 2048) :
    (sign n d token).length = 256 ∧ os2ip (sign n d token) < n := by
  have hn256 : n ≤ 256 ^ 256 := by rw [← two_pow_2048]; exact hi.le
  refine ⟨by simp [sign, modSize_eq], ?_⟩
  simp only [sign, modSize_eq, powMod_eq]
  rw [os2ip_i2osp (lt_of_lt_of_le (Nat.mod_lt _ hn) hn256)]
  exact Nat.mod_lt _ hn

/-- The blob has the size of Android's `RSAPublicKey` struct, 524 bytes, and the sizes regenerated
    from keygen.py are the ones adbd uses (256-byte modulus, 64 words).  (No range hypotheses are
    needed for the length: the model truncates where `struct.pack`/`to_bytes` would raise.) -/
theorem C17_blob_len (n e : Nat) :
    (blob n e).length = 524 ∧ Generated.ANDROID_PUBKEY_ENCODED_SIZE = 524
      ∧ Generated.ANDROID_PUBKEY_MODULUS_SIZE = 256 ∧ Generated.ANDROID_PUBKEY_MODULUS_SIZE_WORDS = 64 :=
  ⟨blob_length n e, rfl, rfl, rfl⟩

/-- Reading the blob back as the struct `<LL256s256sL` gives: 64 words, `n0inv`, the modulus, `rr`,
    the exponent — where `n0inv·n ≡ -1 (mod 2^32)` (so `n0inv = -1/n mod 2^32`, a 32-bit value) and
    `rr = 2^4096 mod n < n`. -/
theorem C17_blob_fields {n e : Nat} (hodd : n % 2 = 1) (hn : n < 2 ^ 2048) (he : e < 2 ^ 32) :
    decodeBlob (blob n e) = some (64, n0inv n, n, rr n, e)
    ∧ n0inv n * n % 2 ^ 32 = 2 ^ 32 - 1 ∧ n0inv n < 2 ^ 32
    ∧ rr n = 2 ^ 4096 % n ∧ rr n < n :=
  ⟨decodeBlob_blob hodd hn he, n0inv_spec hodd, (n0inv_bounds hodd).2, rr_eq n, rr_lt (by omega)⟩

/-- `n0inv` is determined by its defining congruence: the only 32-bit `y` with
    `y·n ≡ -1 (mod 2^32)` is `n0inv n` (so it does not matter how the inverse is computed). -/
theorem C17_n0inv_unique {n y : Nat} (hodd : n % 2 = 1) (hy : y < 2 ^ 32)
    (h : y * n % 2 ^ 32 = 2 ^ 32 - 1) : y = n0inv n :=
  n0inv_unique hodd hy h

/-- Base64 decoding inverts base64 encoding. -/
theorem C17_base64_roundtrip (bs : Bytes) : b64decode (b64encode bs) = some bs :=
  b64_roundtrip bs

/-- The `.pub` file is 700 base64 characters that decode to the 524-byte blob, followed by exactly
    the comment (`' user@host'`). -/
theorem C17_pubfile (n e : Nat) (comment : Bytes) :
    ((pubFile n e comment).take 700).length = 700
    ∧ b64decode ((pubFile n e comment).take 700) = some (blob n e)
    ∧ (pubFile n e comment).drop 700 = comment := by
  have hl : (b64encode (blob n e)).length = 700 := by
    rw [b64encode_length, blob_length]
  unfold pubFile
  rw [List.take_left' hl, List.drop_left' hl]
  exact ⟨hl, b64_roundtrip _, rfl⟩

/-! ### Non-vacuity -/

/-- The hypotheses of `C17_rsa_roundtrip` are satisfiable: p = 61, q = 53, e = 17, d = 413
    (17·413 = 7021 = 1 + 117·60 = 1 + 135·52). -/
example : Nat.Prime 61 ∧ Nat.Prime 53 ∧ (61 : Nat) ≠ 53
    ∧ ∃ kp kq, 17 * 413 = 1 + kp * (61 - 1) ∧ 17 * 413 = 1 + kq * (53 - 1) :=
  ⟨by norm_num, by norm_num, by decide, 117, 135, by decide, by decide⟩

/-- … and the conclusion on that key, computed by the model's own `powMod` (n = 3233). -/
example : powMod (powMod 65 413 3233) 17 3233 = 65 ∧ powMod (powMod 65 17 3233) 413 3233 = 65
    ∧ powMod (powMod 61 413 3233) 17 3233 = 61 := by decide

example : (65 ^ 413) ^ 17 % (61 * 53) = 65 % (61 * 53) :=
  (C17_rsa_roundtrip (by norm_num) (by norm_num) (by decide) ⟨117, 135, by decide, by decide⟩ 65).1

/-- `powMod` edge cases: modulus 1, exponent 0. -/
example : powMod 5 0 7 = 1 ∧ powMod 5 3 1 = 0 ∧ powMod 0 0 1 = 0 ∧ powMod 2 10 1000 = 24 := by decide

/-- Conversions on a concrete value. -/
example : i2osp 4 0x01020304 = [1, 2, 3, 4] ∧ leBytes 4 0x01020304 = [4, 3, 2, 1]
    ∧ os2ip [1, 2, 3, 4] = 0x01020304 := by decide

/-- A token of length 20 exists and its encoding has the stated first bytes. -/
example : (List.replicate 20 (0xAB : UInt8)).length = 20
    ∧ (emsa (List.replicate 20 0xAB) 256).take 3 = [0, 1, 255] := by decide

/-- `n0inv` on a small odd number: `n0inv 3 = 0x55555555` and `3 · 0x55555555 = 2^32 - 1`. -/
example : n0inv 3 = 0x55555555 ∧ n0inv 3 * 3 % 2 ^ 32 = 2 ^ 32 - 1 := by decide +kernel

/-- base64 test vectors of RFC 4648. -/
example : b64encode (ascii "foobar") = ascii "Zm9vYmFy" ∧ b64encode (ascii "fooba") = ascii "Zm9vYmE="
    ∧ b64encode (ascii "foob") = ascii "Zm9vYg==" ∧ b64decode (ascii "Zm9vYg==") = some (ascii "foob") := by
  decide

/-! #### A real 2048-bit key (AdbProofs/Lemmas/KeysExample.lean)

Primality of the two 1024-bit factors cannot be decided in the kernel, and a smaller key is not
possible for the sign/verify theorems (the encoding alone needs 46 bytes, i.e. primes of ≥ 180
bits), so `ValidKey` is exhibited only up to primality: every other field is checked, and the
conclusions of the theorems are checked by evaluation on this key. -/

/-- All `ValidKey` fields except the primality of `exP`, `exQ`. -/
example : exN = exP * exQ ∧ exP ≠ exQ ∧ 2 ^ 2047 ≤ exN ∧ exN < 2 ^ 2048 ∧ exN % 2 = 1
    ∧ exE * exD = 1 + exKP * (exP - 1) ∧ exE * exD = 1 + exKQ * (exQ - 1) ∧ exE < 2 ^ 32 := by
  decide +kernel

/-- Conclusions of `C17_sign_verifies` / `C17_sign_in_range` on that key; and `verify` is not
    trivially true: a signature that is off by one, or the signature of another token, is rejected. -/
example : exTok.length = 20 ∧ verify exN exE exTok (sign exN exD exTok) = true
    ∧ (sign exN exD exTok).length = 256 ∧ os2ip (sign exN exD exTok) < exN
    ∧ verify exN exE exTok (i2osp 256 (os2ip (sign exN exD exTok) + 1)) = false
    ∧ verify exN exE exTok (sign exN exD (List.replicate 20 0)) = false := by
  decide +kernel

/-- Conclusions of `C17_blob_fields` / `C17_pubfile` on that key. -/
example : decodeBlob (blob exN exE) = some (64, n0inv exN, exN, rr exN, exE)
    ∧ n0inv exN * exN % 2 ^ 32 = 2 ^ 32 - 1 ∧ rr exN < exN
    ∧ (pubFile exN exE (ascii " u@h")).length = 704
    ∧ (pubFile exN exE (ascii " u@h")).drop 699 = ascii "= u@h" := by
  decide +kernel

end Adb
