import AdbProofs.Lemmas.ResetInv
/-
  C12, last clause — "a subsequent connect() to a healthy device succeeds and every operation then
  behaves correctly, unaffected by packets or partial state from the broken session".

  Noninterference formulation.  `SessionEq w₁ w₂`: the two worlds have the same future (scripts of
  the coming connections, clock, loop budget), the same local-id counter, banner, default timeout,
  locks and local files, but ARBITRARILY different leftovers: packet store, `available`, `maxdata`,
  the open (possibly half-read, reset, …) connection, the pull destination, and the ghost fields.
  `connect()` maps such worlds to worlds that agree on everything any later operation reads, and
  from then on every operation of every history returns the same in both.  Taking for `w₂` a world
  without leftovers (empty store, no open connection) this says: the object after a broken session
  and a reconnect is indistinguishable from a clean one.
-/
namespace Adb
open Adb.Reset

/-- `connect()` resets the session.  Two device objects that differ only in leftovers of an earlier
    session (parked packets, an open or half-dead connection, `available`, `maxdata`, the pull
    destination) and whose transaction info can be built: `connect()` returns the same in both,
    leaves them agreeing on store, open connection, availability and all other fields a later
    operation can read (`SameSession`), on success also on `maxdata`, and the events it records
    (messages sent, packets delivered, callback) are the same. -/
theorem C12_connect_resets (keys : List Nat) (tt authT rt : Timeout) (cb : Bool) (w₁ w₂ : World)
    (h : SessionEq w₁ w₂) (hl : w₁.locks = [])
    (hmk : ∃ t, Txn.make none none (if tt.isSome = true then tt else w₁.defaultTT) rt none = .ok t) :
    (devConnect keys tt authT rt cb w₁).1 = (devConnect keys tt authT rt cb w₂).1 ∧
    SameSession (devConnect keys tt authT rt cb w₁).2 (devConnect keys tt authT rt cb w₂).2 ∧
    (∀ v, (devConnect keys tt authT rt cb w₁).1 = .ok v →
      (devConnect keys tt authT rt cb w₁).2.maxdata = (devConnect keys tt authT rt cb w₂).2.maxdata) ∧
    ∃ evs, (devConnect keys tt authT rt cb w₁).2.trace = evs ++ w₁.trace ∧
           (devConnect keys tt authT rt cb w₂).2.trace = evs ++ w₂.trace := by
  obtain ⟨t, hm⟩ := hmk
  have hm2 : Txn.make none none (if tt.isSome = true then tt else w₂.defaultTT) rt none = .ok t := by
    rw [← h.2.2.2.2.2.1]; exact hm
  have hs : SessionEq { w₁ with available := false } { w₂ with available := false } := h
  obtain ⟨g1, g2, g3⟩ := ioConnect_resets w₁.banner keys authT cb t _ _ hs rfl hl
  rw [devConnect_run_ok keys tt authT rt cb w₁ t w₁.banner hm rfl,
    devConnect_run_ok keys tt authT rt cb w₂ t w₁.banner hm2 h.2.2.2.2.1.symm]
  cases hc₁ : ioConnect w₁.banner keys authT cb t { w₁ with available := false } with
  | mk r₁ v₁ =>
    cases hc₂ : ioConnect w₁.banner keys authT cb t { w₂ with available := false } with
    | mk r₂ v₂ =>
      rw [hc₁, hc₂] at g1 g2 g3
      simp only at g1
      subst g1
      cases r₁ with
      | error e => exact ⟨rfl, g2.sameSession, (by intro v hv; cases hv), g3⟩
      | ok md =>
        refine ⟨rfl, ?_, fun _ _ => rfl, g3⟩
        have g2' := g2.sameSession
        exact ⟨g2'.1, g2'.2.1, g2'.2.2.1, rfl⟩

/-- The other branch of `connect()`: when the transaction info cannot be built (`read_timeout_s=None`
    with a transport timeout) it raises before touching anything — the same error in both objects,
    both unchanged. -/
theorem C12_connect_badargs_untouched (keys : List Nat) (tt authT rt : Timeout) (cb : Bool) (w₁ w₂ : World)
    (h : SessionEq w₁ w₂) (e : Err)
    (hmk : Txn.make none none (if tt.isSome = true then tt else w₁.defaultTT) rt none = .error e) :
    devConnect keys tt authT rt cb w₁ = (.error e, w₁) ∧ devConnect keys tt authT rt cb w₂ = (.error e, w₂) := by
  refine ⟨devConnect_run_err keys tt authT rt cb w₁ e hmk, devConnect_run_err keys tt authT rt cb w₂ e ?_⟩
  rw [← h.2.2.2.2.2.1]; exact hmk

/-- `close()` resets as well: from two objects that differ only in session leftovers it returns
    `None` in both and leaves them in the same session state — no open connection, empty store,
    unavailable — having recorded the same event. -/
theorem C12_close_then_anything (w₁ w₂ : World) (h : SessionEq w₁ w₂) (hl : w₁.locks = []) :
    (devClose w₁).1 = .ok .none ∧ (devClose w₂).1 = .ok .none ∧
    SameSession (devClose w₁).2 (devClose w₂).2 ∧
    (devClose w₁).2.cur = none ∧ (devClose w₁).2.store = [] ∧ (devClose w₁).2.available = false ∧
    (devClose w₂).2.cur = none ∧ (devClose w₂).2.store = [] ∧ (devClose w₂).2.available = false ∧
    ∃ evs, (devClose w₁).2.trace = evs ++ w₁.trace ∧ (devClose w₂).2.trace = evs ++ w₂.trace := by
  have hl2 : w₂.locks = [] := by rw [← h.2.2.2.2.2.2.1, hl]
  obtain ⟨v₁, e₁, a1, a2, a3, a4, a5, a6, a7, a8, a9, a10, a11, a12, a13, -, -⟩ := devClose_facts w₁ hl
  obtain ⟨v₂, e₂, b1, b2, b3, b4, b5, b6, b7, b8, b9, b10, b11, b12, b13, -, -⟩ := devClose_facts w₂ hl2
  obtain ⟨h1, h2, h3, h4, h5, h6, h7, h8, h9⟩ := h
  rw [e₁, e₂]
  refine ⟨rfl, rfl, ⟨⟨?_, ?_, ?_, ?_, ?_, ?_, ?_, ?_, ?_⟩, ?_, ?_, ?_⟩, a3, a2, a1, b3, b2, b1, [.tclose], a4, b4⟩
  · show v₁.conns = v₂.conns; rw [a5, b5, h1]
  · show v₁.now = v₂.now; rw [a6, b6, h2]
  · show v₁.fuel = v₂.fuel; rw [a7, b7, h3]
  · show v₁.localId = v₂.localId; rw [a8, b8, h4]
  · show v₁.banner = v₂.banner; rw [a9, b9, h5]
  · show v₁.defaultTT = v₂.defaultTT; rw [a10, b10, h6]
  · show v₁.locks = v₂.locks; rw [a11, b11, h7]
  · show v₁.files = v₂.files; rw [a12, b12, h8]
  · show v₁.dirs = v₂.dirs; rw [a13, b13, h9]
  · show v₁.store = v₂.store; rw [a2, b2]
  · show v₁.cur = v₂.cur; rw [a3, b3]
  · show v₁.available = v₂.available; rw [a1, b1]

/-- After the reset nothing of the old session can matter: two objects in the same session state
    (`SameSession`: equal store, open connection, availability, id counter, …) with the same
    `maxdata` — e.g. one that went through a broken session and a reconnect, and a clean one —
    give, for EVERY public operation, the same result, the same session state and `maxdata`
    afterwards, the same recorded events (messages sent, packets delivered/parked/dropped, items
    yielded, callbacks), and the same pull destination if it was the same before (`pull` truncates
    it first).  The only fields allowed to differ are `past` and `trace`, which no operation reads. -/
theorem C12_ops_after_reset (op : ApiOp) (w₁ w₂ : World) (h : SameSession w₁ w₂) (hm : w₁.maxdata = w₂.maxdata) :
    (op.run w₁).1 = (op.run w₂).1 ∧ SameSession (op.run w₁).2 (op.run w₂).2 ∧
    (op.run w₁).2.maxdata = (op.run w₂).2.maxdata ∧
    (w₁.sink = w₂.sink → (op.run w₁).2.sink = (op.run w₂).2.sink) ∧
    ∃ evs, (op.run w₁).2.trace = evs ++ w₁.trace ∧ (op.run w₂).2.trace = evs ++ w₂.trace := by
  obtain ⟨g1, g2, g3⟩ := Ins_apiOp (s := false) op w₁ w₂ (SameSession.agree_m h hm)
  refine ⟨g1, g2.sameSession, g2.maxdata rfl, ?_, g3⟩
  intro hs
  exact (Ins_apiOp (s := true) op w₁ w₂ (SameSession.agree_ms h hm hs)).2.1.sink rfl

/-- …and so for whole histories of calls, each possibly failing. -/
theorem C12_history_after_reset (ops : List ApiOp) (w₁ w₂ : World) (h : SameSession w₁ w₂)
    (hm : w₁.maxdata = w₂.maxdata) :
    (runHistory ops w₁).1 = (runHistory ops w₂).1 ∧ SameSession (runHistory ops w₁).2 (runHistory ops w₂).2 ∧
    (runHistory ops w₁).2.maxdata = (runHistory ops w₂).2.maxdata := by
  induction ops generalizing w₁ w₂ with
  | nil => exact ⟨rfl, h, hm⟩
  | cons op ops ih =>
    obtain ⟨g1, g2, g3, -, -⟩ := C12_ops_after_reset op w₁ w₂ h hm
    obtain ⟨i1, i2, i3⟩ := ih _ _ g2 g3
    simp only [runHistory]
    exact ⟨by rw [g1, i1], i2, i3⟩

/-- The property as a whole: take an object with arbitrary leftovers of a broken session and any
    other object in the same situation otherwise — in particular a clean one (empty store, nothing
    open, never connected) with the same id counter.  After a `connect()` call (with arguments from
    which the transaction info can be built), whether it succeeds or raises, every later history
    of calls — each possibly failing — returns exactly the same in both, and they end in the same
    session state.  Nothing parked, half-read or half-written in the broken session can surface. -/
theorem C12_reconnect_then_history (keys : List Nat) (tt authT rt : Timeout) (cb : Bool) (ops : List ApiOp)
    (w₁ w₂ : World) (h : SessionEq w₁ w₂) (hl : w₁.locks = [])
    (hmk : ∃ t, Txn.make none none (if tt.isSome = true then tt else w₁.defaultTT) rt none = .ok t) :
    (runHistory (.connect keys tt authT rt cb :: ops) w₁).1 = (runHistory (.connect keys tt authT rt cb :: ops) w₂).1 ∧
    SameSession (runHistory (.connect keys tt authT rt cb :: ops) w₁).2
                (runHistory (.connect keys tt authT rt cb :: ops) w₂).2 := by
  obtain ⟨g1, g2, g3, -⟩ := C12_connect_resets keys tt authT rt cb w₁ w₂ h hl hmk
  have hinv : Inv (devConnect keys tt authT rt cb w₁).2 (devConnect keys tt authT rt cb w₂).2 := by
    refine ⟨SameSession.agree g2, ?_⟩
    intro hav
    obtain ⟨t, hm⟩ := hmk
    cases hr : devConnect keys tt authT rt cb w₁ with
    | mk r v =>
      cases r with
      | ok val => rw [← hr]; exact g3 val (by rw [hr])
      | error e =>
        have := (C13_connect_available keys tt authT rt cb w₁ t hm).2 e v hr
        rw [hr] at hav
        rw [this] at hav
        cases hav
  obtain ⟨i1, i2⟩ := history_inv ops _ _ hinv
  simp only [runHistory, ApiOp.run]
  exact ⟨by rw [g1, i1], i2.1.sameSession⟩

/-! ### Non-vacuity (evaluated by the kernel) -/

/-- The hypotheses of `C12_connect_resets` hold for a fresh object and for the same object carrying
    junk in every free field (a parked packet, `available`, a reset half-read connection, a closed
    earlier connection, another `maxdata`, a sink, an old trace); the device answers CNXN:
    `connect()` returns True in both, with the store empty, the same open connection and maxdata. -/
example :
    SessionEq exJunk exFresh ∧ exJunk.locks = [] ∧
    (∃ t, Txn.make none none (if (none : Timeout).isSome = true then none else exJunk.defaultTT) (some 10240) none = .ok t) ∧
    exJunk.store.isEmpty = false ∧ exFresh.store.isEmpty = true ∧
    exJunk.available = true ∧ exFresh.available = false ∧
    exJunk.cur.isSome = true ∧ exFresh.cur.isSome = false ∧
    exJunk.past.length = 1 ∧ exFresh.past.length = 0 ∧ exJunk.maxdata ≠ exFresh.maxdata ∧
    isOkTrue (devConnect [] none (some 10240) (some 10240) false exJunk).1 = true ∧
    isOkTrue (devConnect [] none (some 10240) (some 10240) false exFresh).1 = true ∧
    (devConnect [] none (some 10240) (some 10240) false exJunk).2.store.isEmpty = true ∧
    (devConnect [] none (some 10240) (some 10240) false exJunk).2.maxdata = 4096 ∧
    (devConnect [] none (some 10240) (some 10240) false exFresh).2.maxdata = 4096 ∧
    (devConnect [] none (some 10240) (some 10240) false exJunk).2.cur.map (·.inOff) = some 33 ∧
    (devConnect [] none (some 10240) (some 10240) false exFresh).2.cur.map (·.inOff) = some 33 :=
  ⟨⟨rfl, rfl, rfl, rfl, rfl, rfl, rfl, rfl, rfl⟩, rfl, ⟨_, rfl⟩, by decide +kernel, by decide +kernel, rfl, rfl, rfl, rfl,
    rfl, rfl, by decide +kernel, by decide +kernel, by decide +kernel, by decide +kernel, by decide +kernel,
    by decide +kernel, by decide +kernel, by decide +kernel⟩

/-- The failing side of `C12_connect_resets`: the same two objects with no device to connect to —
    `connect()` raises the same transport error in both, and both end closed, empty and unavailable. -/
example :
    SessionEq exJunkDead exFreshDead ∧ exJunkDead.locks = [] ∧
    isErr .transportError (devConnect [] none (some 10240) (some 10240) false exJunkDead).1 = true ∧
    isErr .transportError (devConnect [] none (some 10240) (some 10240) false exFreshDead).1 = true ∧
    (devConnect [] none (some 10240) (some 10240) false exJunkDead).2.store.isEmpty = true ∧
    (devConnect [] none (some 10240) (some 10240) false exJunkDead).2.cur.isSome = false ∧
    (devConnect [] none (some 10240) (some 10240) false exJunkDead).2.available = false :=
  ⟨⟨rfl, rfl, rfl, rfl, rfl, rfl, rfl, rfl, rfl⟩, rfl, by decide +kernel, by decide +kernel, by decide +kernel,
    by decide +kernel, by decide +kernel⟩

/-- `C12_connect_badargs_untouched` is about a real case: `read_timeout_s=None` with a transport timeout. -/
example : Txn.make none none (if (some 5 : Timeout).isSome = true then some 5 else exJunk.defaultTT) none none
    = .error .pyTypeError := rfl

/-- `C12_close_then_anything` / `C12_ops_after_reset`: the junk object and the fresh one after `close()`
    are in the same session state although they started differently. -/
example : SessionEq exJunk exFresh ∧ exJunk.locks = [] ∧ exJunk.cur.isSome = true ∧ exFresh.cur.isSome = false ∧
    (devClose exJunk).2.past.length = 2 ∧ (devClose exFresh).2.past.length = 0 :=
  ⟨⟨rfl, rfl, rfl, rfl, rfl, rfl, rfl, rfl, rfl⟩, rfl, rfl, rfl, by decide +kernel, by decide +kernel⟩

/-- The hypotheses of `C12_ops_after_reset` / `C12_history_after_reset` hold for two worlds that are
    NOT equal: the junk object and the fresh one after their `connect()` — same session state and
    `maxdata`, but different `past`, `sink` and `trace`. -/
example :
    let v₁ := (devConnect [] none (some 10240) (some 10240) false exJunk).2
    let v₂ := (devConnect [] none (some 10240) (some 10240) false exFresh).2
    SameSession v₁ v₂ ∧ v₁.maxdata = v₂.maxdata ∧ v₁.past.length = 2 ∧ v₂.past.length = 0 ∧
      v₁.sink.isSome = true ∧ v₂.sink.isSome = false ∧ v₁.trace.length ≠ v₂.trace.length :=
  ⟨(C12_connect_resets [] none (some 10240) (some 10240) false exJunk exFresh
      ⟨rfl, rfl, rfl, rfl, rfl, rfl, rfl, rfl, rfl⟩ rfl ⟨_, rfl⟩).2.1,
    by decide +kernel, by decide +kernel, by decide +kernel, by decide +kernel, by decide +kernel, by decide +kernel⟩

/-- `C12_reconnect_then_history` with a real history: after the reconnect a `shell` call is answered
    the same way by both objects (here: both time out reading, the scripted device says nothing more);
    the hypotheses are those of the first example. -/
example :
    let h : List ApiOp := [.connect [] none (some 10240) (some 10240) false, .shell (ascii "id") none (some 10240) none false]
    isOkTrue (devConnect [] none (some 10240) (some 10240) false exJunk).1 = true ∧
    (runHistory h exJunk).1.length = 2 ∧
    (runHistory h exJunk).1.map (isErr .transportTimeout) = [false, true] ∧
    (runHistory h exFresh).1.map (isErr .transportTimeout) = [false, true] := by
  decide +kernel

end Adb
