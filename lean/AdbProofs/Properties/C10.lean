import AdbProofs.Lemmas.SyncDevice
import AdbProofs.Lemmas.SyncExamples
/-
  C10 — sync failures.  If the device answers with a sync FAIL at any point of a transfer, pull
  raises AdbCommandFailureException and push raises PushFailedError, each carrying the device's
  message; a sync status record that is not valid at that point raises InvalidResponseError.  The
  call never returns as if it had succeeded and never substitutes a timeout for a failure the
  device already reported.

  Conventions as in C08: `evs` are the events a call added; `Push.deliveredWrteData evs` is the
  FileSync byte stream handed over by them; `SR.parse` / `SR.parseRec` / `SR.Recs` the reference
  parser.  Exceptions that can pre-empt the parser are spelled out, not hidden:
  * `SR.Aborted t fi w evs e w'` — `e` was raised below the parser: the model's loop budget ran out
    (`.hang` after ≥ `w.fuel` delivered packets), or `_filesync_flush` of the pending request raised
    (sending it, or waiting for its OKAY), or a `_read_until([WRTE])` raised while the bytes handed
    over so far held no complete record;
  * `SR.SendFailed t fi w evs e w'` — what remains of `Aborted` once a COMPLETE record was delivered:
    budget, flush failure (only possible when `fi.sendBuf ≠ []`), or the failure to SEND the OKAY
    acknowledging a delivered WRTE (`_read_until` calls `_okay` before it returns the data — the
    library's behaviour);
  * `SR.PullPreempted` — for `pull` as a whole: exceptions before the transfer (guards, `_open`,
    sending the RECV request) or below the parser during it.  An exception of `_clse` is NOT among
    them: since the repair of the `finally`-masking defect (`pull` now closes the stream in an
    `except BaseException` handler that swallows the close's own exception and re-raises) the close
    still runs on every path but can no longer replace the transfer's exception
    (`C10_pull_close_cannot_mask`, and the last example as a regression test).
  So, once nothing is pending in the send buffer and a complete FAIL record has been delivered,
  neither `_filesync_read` nor `pull` waits for more input before the failure is the one reported:
  no read timeout can take the place of the failure.
-/
namespace Adb
open Adb.SR

/-- Every outcome of `_filesync_read(expected)` classified by the reference parser applied to the
    reassembled stream: a normal return hands back exactly the next record and its id is expected;
    `AdbCommandFailureException(m)` means the next record is a FAIL carrying `m` and FAIL was not
    expected; `InvalidResponseError` means the next record is a known one that is neither expected nor
    FAIL; `KeyError` means a complete header with an unknown id word; every other exception was
    raised below the parser (`Aborted`). -/
theorem C10_fsRead_outcomes (expected : List SyncId) (t : Txn) (fi : FsInfo) (w w' : World)
    (res : Except Err (SyncRec × FsInfo)) (evs : List TEv)
    (h : fsRead expected t fi w = (res, w')) (hev : w'.trace = evs ++ w.trace) :
    match res with
    | .ok (r, fi') => parseRec fi.fmt (fi.recvBuf ++ Push.deliveredWrteData evs) = some (r, fi'.recvBuf) ∧ r.id ∈ expected
    | .error e =>
      (∃ f m rest, e = .adbCommandFailure m ∧ SyncId.FAIL ∉ expected ∧
        parseRec fi.fmt (fi.recvBuf ++ Push.deliveredWrteData evs) = some (⟨.FAIL, f, some m⟩, rest)) ∨
      (∃ r rest, e = .invalidResponse ∧ r.id ∉ expected ∧ r.id ≠ SyncId.FAIL ∧
        parseRec fi.fmt (fi.recvBuf ++ Push.deliveredWrteData evs) = some (r, rest)) ∨
      (∃ word, e = .pyKeyError ∧ parse fi.fmt (fi.recvBuf ++ Push.deliveredWrteData evs) = .badId word) ∨
      Aborted t fi w evs e w' := by
  obtain ⟨e', he', hp, -⟩ := fsRead_any h
  have : evs = e' := Push.evs_unique (he' ▸ hev)
  subst this
  cases res with
  | ok v =>
    obtain ⟨r, fi'⟩ := v
    simp only [SR.ReadPost] at hp
    exact ⟨parseRec_eq_some.2 hp.1, hp.2.1⟩
  | error e =>
    simp only [SR.ReadPost] at hp
    rcases hp with ⟨f, m, rest, h1, h2, h3⟩ | ⟨r, rest, h1, h2, h3, h4⟩ | h3 | h4
    · exact Or.inl ⟨f, m, rest, h1, h2, parseRec_eq_some.2 h3⟩
    · exact Or.inr (Or.inl ⟨r, rest, h1, h2, h3, parseRec_eq_some.2 h4⟩)
    · exact Or.inr (Or.inr (Or.inl h3))
    · exact Or.inr (Or.inr (Or.inr h4))

/-- A FAIL surfaces: if the next record of the reassembled stream is a FAIL with message `m`, fully
    delivered, and FAIL is not among the expected ids, `_filesync_read` raises
    `AdbCommandFailureException(m)` — it does not return normally and raises nothing else, except when
    the loop budget ran out, flushing a pending request raised, or SENDING the OKAY for a delivered
    WRTE failed (`SendFailed`). -/
theorem C10_fail_surfaces (expected : List SyncId) (t : Txn) (fi : FsInfo) (w w' : World)
    (res : Except Err (SyncRec × FsInfo)) (evs : List TEv) (f : List Nat) (m rest : Bytes)
    (h : fsRead expected t fi w = (res, w')) (hev : w'.trace = evs ++ w.trace)
    (hp : parseRec fi.fmt (fi.recvBuf ++ Push.deliveredWrteData evs) = some (⟨.FAIL, f, some m⟩, rest))
    (hne : SyncId.FAIL ∉ expected) :
    res = .error (.adbCommandFailure m) ∨ ∃ e, res = .error e ∧ SendFailed t fi w evs e w' := by
  obtain ⟨e', he', hpost, -⟩ := fsRead_any h
  have : evs = e' := Push.evs_unique (he' ▸ hev)
  subst this
  have hp' := parseRec_eq_some.1 hp
  have hag := ReadPost.against hpost [] (by simpa using hp')
  cases res with
  | ok v =>
    obtain ⟨r, fi'⟩ := v
    simp only [Against] at hag
    exact absurd hag.2.2 hne
  | error e =>
    simp only [Against] at hag
    rcases hag with ⟨f', m', rfl, hr, -⟩ | ⟨-, -, hnf⟩ | hab
    · cases hr; exact Or.inl rfl
    · exact absurd rfl hnf
    · exact Or.inr ⟨e, rfl, hab.refine hev (by rw [hp']; simp)⟩

/-- An invalid status record: a fully delivered known record whose id is neither expected nor FAIL
    makes `_filesync_read` raise `InvalidResponseError` (same exceptions as above apart). -/
theorem C10_invalid_record (expected : List SyncId) (t : Txn) (fi : FsInfo) (w w' : World)
    (res : Except Err (SyncRec × FsInfo)) (evs : List TEv) (r : SyncRec) (rest : Bytes)
    (h : fsRead expected t fi w = (res, w')) (hev : w'.trace = evs ++ w.trace)
    (hp : parseRec fi.fmt (fi.recvBuf ++ Push.deliveredWrteData evs) = some (r, rest))
    (hne : r.id ∉ expected) (hnf : r.id ≠ SyncId.FAIL) :
    res = .error .invalidResponse ∨ ∃ e, res = .error e ∧ SendFailed t fi w evs e w' := by
  obtain ⟨e', he', hpost, -⟩ := fsRead_any h
  have : evs = e' := Push.evs_unique (he' ▸ hev)
  subst this
  have hp' := parseRec_eq_some.1 hp
  have hag := ReadPost.against hpost [] (by simpa using hp')
  cases res with
  | ok v =>
    obtain ⟨r', fi'⟩ := v
    simp only [Against] at hag
    exact absurd hag.2.2 hne
  | error e =>
    simp only [Against] at hag
    rcases hag with ⟨f', m', -, hr, -⟩ | ⟨rfl, -, -⟩ | hab
    · rw [hr] at hnf; exact absurd rfl hnf
    · exact Or.inl rfl
    · exact Or.inr ⟨e, rfl, hab.refine hev (by rw [hp']; simp)⟩

/-- An unknown id word in a fully delivered header makes `_filesync_read` raise `KeyError`
    (`constants.FILESYNC_WIRE_TO_ID[header[0]]`), same exceptions apart. -/
theorem C10_unknown_id (expected : List SyncId) (t : Txn) (fi : FsInfo) (w w' : World)
    (res : Except Err (SyncRec × FsInfo)) (evs : List TEv) (word : Nat)
    (h : fsRead expected t fi w = (res, w')) (hev : w'.trace = evs ++ w.trace)
    (hp : parse fi.fmt (fi.recvBuf ++ Push.deliveredWrteData evs) = .badId word) :
    res = .error .pyKeyError ∨ ∃ e, res = .error e ∧ SendFailed t fi w evs e w' := by
  obtain ⟨e', he', hpost, -⟩ := fsRead_any h
  have : evs = e' := Push.evs_unique (he' ▸ hev)
  subst this
  cases res with
  | ok v =>
    obtain ⟨r', fi'⟩ := v
    simp only [SR.ReadPost] at hpost
    rw [hp] at hpost
    cases hpost.1
  | error e =>
    simp only [SR.ReadPost] at hpost
    rw [hp] at hpost
    rcases hpost with ⟨f, m, rest, -, -, h3⟩ | ⟨r, rest, -, -, -, h4⟩ | ⟨wd, rfl, -⟩ | hab
    · cases h3
    · cases h4
    · exact Or.inl rfl
    · exact Or.inr ⟨e, rfl, hab.refine hev (by rw [hp]; simp)⟩

/-- The status read of `_push`, every outcome: it returns normally ONLY if the next record of the
    reassembled stream is an OKAY; a FAIL record raises `PushFailedError` carrying exactly the record's
    data; any other known id raises `InvalidResponseError`, an unknown id `KeyError`; every other
    exception was raised below the parser. -/
theorem C10_push_status (t : Txn) (fi : FsInfo) (w w' : World) (res : Except Err Unit) (evs : List TEv)
    (h : pushStatus t fi w = (res, w')) (hev : w'.trace = evs ++ w.trace) :
    (res = .ok () ∧ ∃ r rest, parseRec fi.fmt (fi.recvBuf ++ Push.deliveredWrteData evs) = some (r, rest) ∧ r.id = SyncId.OKAY) ∨
    (∃ r rest, res = .error (.pushFailed (r.data.getD [])) ∧
      parseRec fi.fmt (fi.recvBuf ++ Push.deliveredWrteData evs) = some (r, rest) ∧ r.id = SyncId.FAIL) ∨
    (∃ r rest, res = .error .invalidResponse ∧
      parseRec fi.fmt (fi.recvBuf ++ Push.deliveredWrteData evs) = some (r, rest) ∧ r.id ≠ SyncId.OKAY ∧ r.id ≠ SyncId.FAIL) ∨
    (∃ word, res = .error .pyKeyError ∧ parse fi.fmt (fi.recvBuf ++ Push.deliveredWrteData evs) = .badId word) ∨
    (∃ e, res = .error e ∧ Aborted t fi w evs e w') := by
  obtain ⟨x, hx, hres⟩ := pushStatus_any h
  have hcl := C10_fsRead_outcomes _ _ _ _ _ _ _ hx hev
  cases x with
  | ok v =>
    obtain ⟨r, fi'⟩ := v
    simp only at hres hcl
    rcases hres with ⟨hid, rfl⟩ | ⟨hid, rfl⟩
    · exact Or.inl ⟨rfl, r, _, hcl.1, hid⟩
    · exact Or.inr (Or.inl ⟨r, _, rfl, hcl.1, hid⟩)
  | error e =>
    simp only at hres hcl
    subst hres
    rcases hcl with ⟨f, m, rest, -, hne, -⟩ | ⟨r, rest, rfl, hne, -, hp⟩ | ⟨word, rfl, hp⟩ | hab
    · exact absurd (by simp) hne
    · refine Or.inr (Or.inr (Or.inl ⟨r, rest, rfl, hp, ?_, ?_⟩))
      · intro h; exact hne (by simp [h])
      · intro h; exact hne (by simp [h])
    · exact Or.inr (Or.inr (Or.inr (Or.inl ⟨word, rfl, hp⟩)))
    · exact Or.inr (Or.inr (Or.inr (Or.inr ⟨e, rfl, hab⟩)))

/-- push raises `PushFailedError` with the device's message: if the next record of the reassembled
    stream is a FAIL carrying `m`, fully delivered, the status read raises `PushFailedError(m)` —
    never returns normally — budget and send failures apart. -/
theorem C10_push_fail (t : Txn) (fi : FsInfo) (w w' : World) (res : Except Err Unit) (evs : List TEv)
    (f : List Nat) (m rest : Bytes)
    (h : pushStatus t fi w = (res, w')) (hev : w'.trace = evs ++ w.trace)
    (hp : parseRec fi.fmt (fi.recvBuf ++ Push.deliveredWrteData evs) = some (⟨.FAIL, f, some m⟩, rest)) :
    res = .error (.pushFailed m) ∨ ∃ e, res = .error e ∧ SendFailed t fi w evs e w' := by
  rcases C10_push_status t fi w w' res evs h hev with ⟨-, r, rest', hp', hid⟩ | ⟨r, rest', rfl, hp', -⟩ |
      ⟨r, rest', -, hp', -, hnf⟩ | ⟨word, -, hp'⟩ | ⟨e, rfl, hab⟩
  · rw [hp] at hp'; cases hp'; cases hid
  · rw [hp] at hp'; cases hp'; exact Or.inl rfl
  · rw [hp] at hp'; cases hp'; exact absurd rfl hnf
  · rw [parseRec_eq_some.1 hp] at hp'; cases hp'
  · exact Or.inr ⟨e, rfl, hab.refine hev (by rw [parseRec_eq_some.1 hp]; simp)⟩

/-- FAIL at any point of a pull transfer: if the reassembled stream of the loop of `_pull` is any
    number of DATA records followed by a FAIL record carrying `m`, the loop raises
    `AdbCommandFailureException(m)`; it never returns normally; any other exception was raised below
    the parser in one of the `_filesync_read` calls (or is the model's loop-budget verdict). -/
theorem C10_pull_fail_at_any_point (devPath : Bytes) (cb : CbMode) (total : Nat) (t : Txn) (fuel : Nat) (fi : FsInfo)
    (w w' : World) (evs : List TEv) (res : Except Err Unit) (datas : List Bytes) (mid rest : Bytes) (f : List Nat) (m : Bytes)
    (h : pullLoop devPath cb total t fuel fi w = (res, w')) (hev : w'.trace = evs ++ w.trace) (hfmt : fi.fmt = .pull)
    (hrecs : Recs .pull (fi.recvBuf ++ Push.deliveredWrteData evs) (datas.map dataRec) mid)
    (hfail : parseRec .pull mid = some (⟨.FAIL, f, some m⟩, rest)) :
    res = .error (.adbCommandFailure m) ∨ ∃ e, res = .error e ∧ LoopAborted t e w' :=
  pullLoop_fail h hev hfmt hrecs (parseRec_eq_some.1 hfail)

/-- … and of a list transfer: DENT records followed by a FAIL record. -/
theorem C10_list_fail_at_any_point (t : Txn) (fuel : Nat) (fi : FsInfo) (acc : List (Bytes × Nat × Nat × Nat))
    (w w' : World) (evs : List TEv) (res : Except Err (List (Bytes × Nat × Nat × Nat))) (dents : List SyncRec)
    (mid rest : Bytes) (f : List Nat) (m : Bytes)
    (h : listLoop t fuel fi acc w = (res, w')) (hev : w'.trace = evs ++ w.trace) (hfmt : fi.fmt = .list)
    (hrecs : Recs .list (fi.recvBuf ++ Push.deliveredWrteData evs) dents mid) (hdents : ∀ r ∈ dents, r.id = SyncId.DENT)
    (hfail : parseRec .list mid = some (⟨.FAIL, f, some m⟩, rest)) :
    res = .error (.adbCommandFailure m) ∨ ∃ e, res = .error e ∧ LoopAborted t e w' :=
  listLoop_fail h hev hfmt hrecs hdents (parseRec_eq_some.1 hfail)

/-- `pull` as a whole (no callback, idle device), every outcome, when the WRTE payloads delivered
    during the call are DATA records followed by a FAIL record carrying `m`: the call raises
    `AdbCommandFailureException(m)`, whatever the close handshake does afterwards (the device may
    never send its CLSE, `_clse` may time out: the failure is still the one reported) — unless an
    exception pre-empted the parser: a guard or `_open` raised, the RECV request could not be sent,
    the acknowledgement of a delivered WRTE could not be sent, or the model's loop budget ran out
    (`PullPreempted`). -/
theorem C10_pull_fail (devPath : Bytes) (tt rt : Timeout) (w w' : World) (res : Except Err Val) (evs : List TEv)
    (chunks : List Bytes) (mid rest : Bytes) (f : List Nat) (m : Bytes)
    (h : devPull devPath .none tt rt w = (res, w')) (hev : w'.trace = evs ++ w.trace) (hl : w.locks = [])
    (hrecs : Recs .pull (Push.deliveredWrteData evs) (chunks.map dataRec) mid)
    (hfail : parseRec .pull mid = some (⟨.FAIL, f, some m⟩, rest)) :
    res = .error (.adbCommandFailure m) ∨ ∃ e, res = .error e ∧ PullPreempted devPath tt rt w e w' :=
  devPull_fail h hev hl hrecs (parseRec_eq_some.1 hfail)

/-- The close cannot mask the transfer's exception: in a `pull` that got past the guards and `_open`,
    if `_pull` raised `e` then `pull` raises exactly `e` — and `_clse` still ran, with whatever
    outcome `r2`. -/
theorem C10_pull_close_cannot_mask (devPath : Bytes) (cb : CbMode) (tt rt : Timeout) (w w' w0 w1 w2 : World)
    (res : Except Err Val) (t : Txn) (e : Err)
    (h : devPull devPath cb tt rt w = (res, w'))
    (h0 : runGuards (guardsFor "pull") (some devPath) w = (.ok (), w0))
    (h1 : openStream (ascii "sync:") tt rt none { w0 with sink := some [] } = (.ok t, w1))
    (hin : pullInner devPath cb t { fmt := .pull, maxdata := w1.maxdata } w1 = (.error e, w2)) :
    res = .error e ∧ ∃ r2, clse t w2 = (r2, w') :=
  devPull_close_cannot_mask h h0 h1 hin

/-- Never as if it had succeeded: `_pull`'s loop, `list`'s loop and `stat` return normally only if
    every record consumed had an expected id — DATA…DONE, DENT…DONE, STAT respectively; in particular
    a stream read as non-DONE records followed by a FAIL record excludes a normal return. -/
theorem C10_never_ok_on_fail :
    (∀ (devPath : Bytes) (cb : CbMode) (total : Nat) (t : Txn) (fuel : Nat) (fi : FsInfo) (w w' : World) (evs : List TEv)
        (b : List SyncRec) (mid rest : Bytes) (fl : SyncRec),
      pullLoop devPath cb total t fuel fi w = (.ok (), w') → w'.trace = evs ++ w.trace → fi.fmt = .pull →
      Recs .pull (fi.recvBuf ++ Push.deliveredWrteData evs) b mid → (∀ y ∈ b, y.id ≠ SyncId.DONE) →
      parseRec .pull mid = some (fl, rest) → fl.id ≠ SyncId.FAIL) ∧
    (∀ (t : Txn) (fuel : Nat) (fi : FsInfo) (files : List (Bytes × Nat × Nat × Nat)) (w w' : World) (evs : List TEv)
        (b : List SyncRec) (mid rest : Bytes) (fl : SyncRec),
      listLoop t fuel fi [] w = (.ok files, w') → w'.trace = evs ++ w.trace → fi.fmt = .list →
      Recs .list (fi.recvBuf ++ Push.deliveredWrteData evs) b mid → (∀ y ∈ b, y.id ≠ SyncId.DONE) →
      parseRec .list mid = some (fl, rest) → fl.id ≠ SyncId.FAIL) ∧
    (∀ (devPath : Bytes) (tt rt : Timeout) (w w' : World) (v : Val) (evs : List TEv) (fl : SyncRec) (rest : Bytes),
      devStat devPath tt rt w = (.ok v, w') → w'.trace = evs ++ w.trace → w.locks = [] →
      parseRec .stat (Push.deliveredWrteData evs) = some (fl, rest) → fl.id = SyncId.STAT) := by
  refine ⟨?_, ?_, ?_⟩
  · intro devPath cb total t fuel fi w w' evs b mid rest fl h hev hfmt hb hnd hp hfl
    obtain ⟨datas, done, rest', hrecs, hdone, -, -⟩ := pullLoop_ok h hev hfmt
    exact Recs.no_fail hrecs (by intro x hx; simp only [List.mem_map] at hx; obtain ⟨d, -, rfl⟩ := hx; simp [dataRec])
      hdone hb hnd (parseRec_eq_some.1 hp) hfl
  · intro t fuel fi files w w' evs b mid rest fl h hev hfmt hb hnd hp hfl
    obtain ⟨dents, done, rest', hrecs, hdone, hall, -⟩ := listLoop_ok h hev hfmt
    exact Recs.no_fail hrecs (by intro x hx; rw [(hall x hx).1]; decide) hdone hb hnd (parseRec_eq_some.1 hp) hfl
  · intro devPath tt rt w w' v evs fl rest h hev hl hp
    obtain ⟨mode, size, mtime, rest', hp', -⟩ := devStat_whole h hev hl
    rw [parseRec_eq_some.1 hp] at hp'
    cases hp'
    rfl

/-! ### non-vacuity -/

/-- the reference parser on a FAIL record, on an unknown id, on an incomplete record -/
example : parseRec .pull (Push.syncRec .FAIL 2 [110, 111] ++ [5]) = some (⟨.FAIL, [], some [110, 111]⟩, [5]) ∧
    parse .pull (le32 7 ++ le32 0) = .badId 7 ∧ parse .pull ((Push.syncRec .FAIL 2 [110, 111]).take 9) = .more := by
  decide +kernel

/-- `_filesync_read([DATA, DONE])` on a FAIL record cut inside its data raises the failure with the message;
    the hypotheses of `C10_fail_surfaces` hold -/
example : errOf (fsRead [.DATA, .DONE] sxT { fmt := .pull, maxdata := 4096 } (wRec (Push.syncRec .FAIL 2 [110, 111]) 9)).1
      = some (.adbCommandFailure [110, 111]) ∧
    parseRec .pull ([] ++ Push.deliveredWrteData
      (fsRead [.DATA, .DONE] sxT { fmt := .pull, maxdata := 4096 } (wRec (Push.syncRec .FAIL 2 [110, 111]) 9)).2.trace)
      = some (⟨.FAIL, [], some [110, 111]⟩, []) := by
  decide +kernel

/-- an OKAY record where DATA/DONE is expected raises InvalidResponseError; an unknown id raises KeyError -/
example : errOf (fsRead [.DATA, .DONE] sxT { fmt := .pull, maxdata := 4096 } (wRec (Push.syncRec .OKAY 0 []) 3)).1
      = some .invalidResponse ∧
    errOf (fsRead [.DATA, .DONE] sxT { fmt := .pull, maxdata := 4096 } (wRec (le32 7 ++ le32 0) 3)).1 = some .pyKeyError := by
  decide +kernel

/-- the status read of a push answered by FAIL "no" raises PushFailedError "no"; answered by OKAY it returns -/
example : errOf (pushStatus sxT { fmt := .push, maxdata := 4096 } (wRec (Push.syncRec .FAIL 2 [110, 111]) 4)).1
      = some (.pushFailed [110, 111]) ∧
    (pushStatus sxT { fmt := .push, maxdata := 4096 } (wRec (Push.syncRec .OKAY 0 []) 4)).1.toOption = some () := by
  decide +kernel

/-- a whole pull answered by DATA [1,2,3] then FAIL "no": AdbCommandFailureException "no"; the hypotheses of
    `C10_pull_fail` hold (idle device; the delivered stream is one DATA record followed by the FAIL record) -/
example : errOf (devPull sxPath .none (some 10) (some 10) wPullFail).1 = some (.adbCommandFailure [110, 111]) ∧
    wPullFail.locks = [] ∧
    Push.deliveredWrteData (devPull sxPath .none (some 10) (some 10) wPullFail).2.trace
      = Push.syncRec .DATA 3 [1, 2, 3] ++ Push.syncRec .FAIL 2 [110, 111] ∧
    parseRec .pull (Push.syncRec .DATA 3 [1, 2, 3] ++ Push.syncRec .FAIL 2 [110, 111])
      = some (dataRec [1, 2, 3], Push.syncRec .FAIL 2 [110, 111]) ∧
    parseRec .pull (Push.syncRec .FAIL 2 [110, 111]) = some (⟨.FAIL, [], some [110, 111]⟩, []) := by
  decide +kernel

/-- a `list` answered by one DENT and then FAIL "no": AdbCommandFailureException "no" -/
example : errOf (devList sxPath (some 10) (some 10) wListFail).1 = some (.adbCommandFailure [110, 111]) := by
  decide +kernel

/-- The `SendFailed` exception is not an artefact of the proof: here the device's complete FAIL "no" was
    delivered, but sending the OKAY that acknowledges its WRTE meets a write timeout — `_filesync_read`
    raises the transport's timeout error, not AdbCommandFailureException. -/
example : errOf (fsRead [.DATA, .DONE] sxT { fmt := .pull, maxdata := 4096 } wAckFail).1 = some .transportTimeout ∧
    parseRec .pull (Push.deliveredWrteData (fsRead [.DATA, .DONE] sxT { fmt := .pull, maxdata := 4096 } wAckFail).2.trace)
      = some (⟨.FAIL, [], some [110, 111]⟩, []) := by
  decide +kernel

/-- Regression example for the repaired `finally`-masking defect: the device reported FAIL "no" (fully
    delivered) and then never sent its CLSE, so `_clse`'s wait times out — `pull` nevertheless raises
    AdbCommandFailureException "no" (before the repair this evaluated to the transport's timeout
    error), and the CLSE was still sent last. -/
example : errOf (devPull sxPath .none (some 10) (some 10) wPullFailNoClse).1 = some (.adbCommandFailure [110, 111]) ∧
    Push.deliveredWrteData (devPull sxPath .none (some 10) (some 10) wPullFailNoClse).2.trace
      = Push.syncRec .DATA 3 [1, 2, 3] ++ Push.syncRec .FAIL 2 [110, 111] ∧
    (transmitted (devPull sxPath .none (some 10) (some 10) wPullFailNoClse).2.trace).getLast? = some ⟨.CLSE, 1, 7, []⟩ := by
  decide +kernel

/-- the hypotheses of `C10_pull_close_cannot_mask` are satisfiable: in that world the guards pass, `_open`
    returns the stream (1, 7) and `_pull` raises AdbCommandFailureException "no" -/
example : ∃ w2 e,
    runGuards (guardsFor "pull") (some sxPath) wPullFailNoClse = (.ok (), wNoClse0) ∧
    openStream (ascii "sync:") (some 10) (some 10) none { wNoClse0 with sink := some [] } = (.ok sxT, wNoClse1) ∧
    pullInner sxPath .none sxT { fmt := .pull, maxdata := wNoClse1.maxdata } wNoClse1 = (.error e, w2) := by
  have h0 : (runGuards (guardsFor "pull") (some sxPath) wPullFailNoClse).1.toOption = some () := by decide +kernel
  have h1 : (openStream (ascii "sync:") (some 10) (some 10) none { wNoClse0 with sink := some [] }).1.toOption
      = some sxT := by decide +kernel
  have h2 : errOf (pullInner sxPath .none sxT { fmt := .pull, maxdata := wNoClse1.maxdata } wNoClse1).1
      = some (.adbCommandFailure [110, 111]) := by decide +kernel
  exact ⟨_, _, run_ok_of h0, run_ok_of h1, run_error_of h2⟩

end Adb
