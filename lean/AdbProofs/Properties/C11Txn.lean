import AdbModel
/-
  C11 (transaction part) — the effective timeouts computed by `_AdbTransactionInfo.__init__`
  (`Txn.make`) always satisfy  transport ≤ read ≤ total,  the exact values, and exactly when the
  constructor raises `TypeError`.
  Only property theorems and non-vacuity examples live here.
-/
namespace Adb

/-- Whenever the constructor returns, the stored timeouts are ordered: transport ≤ read (when both are
    numbers), read ≤ total (when both are numbers), a missing read timeout forces a missing transport
    timeout, and `timeout_s`, `local_id`, `remote_id` are stored unchanged. -/
theorem C11_txn_order (l r : Option Nat) (tt rt total : Timeout) (i : Txn)
    (h : Txn.make l r tt rt total = .ok i) :
    (∀ a b, i.tt = some a → i.rt = some b → a ≤ b)
      ∧ (∀ b c, i.rt = some b → i.total = some c → b ≤ c)
      ∧ (i.rt = none → i.tt = none)
      ∧ i.total = total ∧ i.localId = l ∧ i.remoteId = r := by
  cases tt <;> cases rt <;> cases total <;>
    simp [Txn.make, pyMin, bind, Except.bind, pure, Except.pure] at h <;>
    subst h <;> simp <;> omega

/-- The exact stored values, by cases on which of the three arguments are `None`:
    `read = rt` if `total` is `None`, else `min(rt, total)`;
    `transport = read` if `tt` is `None`, else `min(tt, read)`.
    The combinations not listed (`rt = None` together with a number for `tt` or `total`) raise, see
    `C11_txn_error_iff`. -/
theorem C11_txn_values (l r : Option Nat) :
    -- nothing given
    Txn.make l r none none none = .ok ⟨l, r, none, none, none⟩
    -- only read
    ∧ (∀ b, Txn.make l r none (some b) none = .ok ⟨l, r, some b, some b, none⟩)
    -- transport and read
    ∧ (∀ a b, Txn.make l r (some a) (some b) none = .ok ⟨l, r, some (min a b), some b, none⟩)
    -- read and total
    ∧ (∀ b c, Txn.make l r none (some b) (some c) = .ok ⟨l, r, some (min b c), some (min b c), some c⟩)
    -- all three
    ∧ (∀ a b c, Txn.make l r (some a) (some b) (some c)
          = .ok ⟨l, r, some (min a (min b c)), some (min b c), some c⟩) := by
  refine ⟨rfl, fun _ => rfl, fun _ _ => rfl, fun _ _ => rfl, fun _ _ _ => rfl⟩

/-- The same as one formula over `Option Int`: on success the read timeout is `rt` when `total` is
    `None` and `min rt total` otherwise; the transport timeout is the read timeout when `tt` is `None`
    and `min tt read` otherwise (all `min`s are between numbers, because the constructor succeeded). -/
theorem C11_txn_values_formula (l r : Option Nat) (tt rt total : Timeout) (i : Txn)
    (h : Txn.make l r tt rt total = .ok i) :
    i.rt = (match total with
            | none => rt
            | some c => rt.map (fun b => min b c))
      ∧ i.tt = (match tt with
            | none => i.rt
            | some a => i.rt.map (fun b => min a b))
      ∧ (total ≠ none → rt ≠ none) ∧ (tt ≠ none → i.rt ≠ none) := by
  cases tt <;> cases rt <;> cases total <;>
    simp [Txn.make, pyMin, bind, Except.bind, pure, Except.pure] at h <;>
    subst h <;> simp

/-- The constructor raises exactly when a `min` meets `None`: the read timeout is `None` while the
    total timeout or the transport timeout is a number; the exception is always `TypeError`. -/
theorem C11_txn_error_iff (l r : Option Nat) (tt rt total : Timeout) (e : Err) :
    Txn.make l r tt rt total = .error e
      ↔ e = .pyTypeError ∧ ((total ≠ none ∧ rt = none) ∨ (tt ≠ none ∧ rt = none)) := by
  cases tt <;> cases rt <;> cases total <;>
    simp [Txn.make, pyMin, bind, Except.bind, pure, Except.pure, eq_comm]

/-! ### Non-vacuity -/

-- transport 5 s, read 10 s, total 3 s (in ticks of 2^-10 s): everything is clamped to the total
example : Txn.make (some 7) none (some 5120) (some 10240) (some 3072)
    = .ok ⟨some 7, none, some 3072, some 3072, some 3072⟩ := by rfl
-- transport larger than read: clamped to read
example : Txn.make (some 1) none (some 20480) (some 10240) none
    = .ok ⟨some 1, none, some 10240, some 10240, none⟩ := by rfl
-- transport smaller than read smaller than total: nothing changes
example : Txn.make (some 1) (some 2) (some 1) (some 2) (some 3)
    = .ok ⟨some 1, some 2, some 1, some 2, some 3⟩ := by rfl
-- blocking transport (`None`) inherits the read timeout
example : Txn.make (some 1) none none (some 10240) (some 99)
    = .ok ⟨some 1, none, some 99, some 99, some 99⟩ := by rfl
-- the raising cases
example : Txn.make (some 1) none none none (some 5) = .error .pyTypeError := by rfl
example : Txn.make (some 1) none (some 5) none none = .error .pyTypeError := by rfl
example : Txn.make (some 1) none (some 5) none (some 5) = .error .pyTypeError := by rfl
-- `read_timeout_s=None` alone is accepted
example : Txn.make (some 1) none none none none = .ok ⟨some 1, none, none, none, none⟩ := by rfl
-- the hypotheses of `C11_txn_order` are satisfiable with a non-trivial value and the order is strict there
example : ∃ i, Txn.make (some 7) none (some 1) (some 2) (some 3) = .ok i ∧ i.tt = some 1 ∧ i.rt = some 2 ∧ i.total = some 3 :=
  ⟨_, rfl, rfl, rfl, rfl⟩

end Adb
