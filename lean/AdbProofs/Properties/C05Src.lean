import AdbProofs.Properties.C04Src
/-
  C05 / C11 (tie to the source, by proof) — `_AdbIOManager._read_expected_packet_from_device` (both twins), the wait the CNXN/AUTH handshake uses. One iteration of its loop, extracted from
  the CURRENT source with the result of `self._read_packet_from_device(adb_info)` and the clock as parameters, is the model's `expectLoop` step: a packet whose command is one of the
  expected ones is returned unchanged; any other packet is skipped, and then `AdbTimeoutError` is raised iff more than `read_timeout_s` (the auth timeout during the last wait of the handshake)
  has passed since the wait began (`TypeError` for a `None` timeout), else the loop reads the next packet.
  Only property theorems live here.
-/
set_option linter.unusedSimpArgs false
namespace Adb
open Py

/-- the list of expected command ids as the Python list of their byte strings -/
def encCmds (l : List Cmd) : Py.Val := .list (l.map fun c => .bytes c.idBytes)

theorem anyEq_idBytes (c : Cmd) (l : List Cmd) : Py.anyEq (.bytes c.idBytes) (l.map fun d => Py.Val.bytes d.idBytes) = .ok (l.contains c) := by
  induction l with
  | nil => simp [Py.anyEq, pure, Except.pure]
  | cons d rest ih =>
    have hw : (c.idBytes == d.idBytes) = (c == d) := idBytes_eq_iff c d
    by_cases h : c = d
    · subst h; simp [Py.anyEq, Py.eq, bind, Except.bind, pure, Except.pure]
    · have h' : (c == d) = false := by simp [h]
      have h2 : ¬ (c.idBytes = d.idBytes) := by
        intro he; have : (c.idBytes == d.idBytes) = true := by simp [he]
        rw [hw, h'] at this; exact Bool.noConfusion this
      simp [Py.anyEq, Py.eq, bind, Except.bind, pure, Except.pure, h2, ih, List.contains_cons, h']
      intro he; exact absurd he h


/-- One iteration of the expected-packet wait (sync): request, and reaction to the packet `(c, a0, a1, d)` with the clock at `now`. -/
theorem C05_src_expect_iter_sync (cls : String) (fs : List (String × Py.Val)) (t : Txn) (expected : List Cmd) (x0 x1 x2 x3 : Py.Val) (c : Cmd) (a0 a1 : Nat) (d : Bytes)
    (start now : Int) (hrt : alookupS "read_timeout_s" fs = some (encTimeout t.rt)) :
    Src.AdbDevice_read_expected_packet_from_device_eff0_args (.obj cls fs) x0 x1 x2 x3 (encCmds expected) (.int start) (.int now)
        = .ok (.tuple [.str "request", .str "_read_packet_from_device", .obj cls fs])
      ∧ Src.AdbDevice_read_expected_packet_from_device_iter (.obj cls fs) x0 x1 x2 x3 (encCmds expected) (.int start) (encRead c a0 a1 d) (.int now)
        = (if expected.contains c then .ok (.tuple [.str "return", encRead c a0 a1 d, .int a0, .int a1, .bytes c.idBytes, .bytes d])
           else match t.rt with
             | none => .error .typeError
             | some l => if now - start > l then .error .adbTimeout else .ok (.tuple [.str "continue", .int a0, .int a1, .bytes c.idBytes, .bytes d])) := by
  constructor
  · simp [Src.AdbDevice_read_expected_packet_from_device_eff0_args, pysimp]
  · by_cases hc : expected.contains c
    · have hm : c ∈ expected := by simpa using hc
      simp [hm, Src.AdbDevice_read_expected_packet_from_device_iter, pysimp, encRead, encCmds, Py.unpackN, Py.nth, Py.inV, Py.contains, anyEq_idBytes, hc, bind, Except.bind, pure, Except.pure]
    · have hm : ¬ c ∈ expected := by simpa using hc
      cases hr : t.rt with
      | none => simp [hm, Src.AdbDevice_read_expected_packet_from_device_iter, pysimp, encRead, encCmds, Py.unpackN, Py.nth, Py.inV, Py.contains, anyEq_idBytes, hc, hrt, hr, encTimeout, bind, Except.bind, pure, Except.pure]
      | some l =>
        by_cases h2 : now - start > l <;>
          simp [hm, Src.AdbDevice_read_expected_packet_from_device_iter, pysimp, encRead, encCmds, Py.unpackN, Py.nth, Py.inV, Py.contains, anyEq_idBytes, hc, hrt, hr, encTimeout, h2, bind, Except.bind, pure, Except.pure]

/-- One iteration of the expected-packet wait (async twin): request, and reaction to the packet `(c, a0, a1, d)` with the clock at `now`. -/
theorem C05_src_expect_iter_async (cls : String) (fs : List (String × Py.Val)) (t : Txn) (expected : List Cmd) (x0 x1 x2 x3 : Py.Val) (c : Cmd) (a0 a1 : Nat) (d : Bytes)
    (start now : Int) (hrt : alookupS "read_timeout_s" fs = some (encTimeout t.rt)) :
    Src.AdbDeviceAsync_read_expected_packet_from_device_eff0_args (.obj cls fs) x0 x1 x2 x3 (encCmds expected) (.int start) (.int now)
        = .ok (.tuple [.str "request", .str "_read_packet_from_device", .obj cls fs])
      ∧ Src.AdbDeviceAsync_read_expected_packet_from_device_iter (.obj cls fs) x0 x1 x2 x3 (encCmds expected) (.int start) (encRead c a0 a1 d) (.int now)
        = (if expected.contains c then .ok (.tuple [.str "return", encRead c a0 a1 d, .int a0, .int a1, .bytes c.idBytes, .bytes d])
           else match t.rt with
             | none => .error .typeError
             | some l => if now - start > l then .error .adbTimeout else .ok (.tuple [.str "continue", .int a0, .int a1, .bytes c.idBytes, .bytes d])) := by
  constructor
  · simp [Src.AdbDeviceAsync_read_expected_packet_from_device_eff0_args, pysimp]
  · by_cases hc : expected.contains c
    · have hm : c ∈ expected := by simpa using hc
      simp [hm, Src.AdbDeviceAsync_read_expected_packet_from_device_iter, pysimp, encRead, encCmds, Py.unpackN, Py.nth, Py.inV, Py.contains, anyEq_idBytes, hc, bind, Except.bind, pure, Except.pure]
    · have hm : ¬ c ∈ expected := by simpa using hc
      cases hr : t.rt with
      | none => simp [hm, Src.AdbDeviceAsync_read_expected_packet_from_device_iter, pysimp, encRead, encCmds, Py.unpackN, Py.nth, Py.inV, Py.contains, anyEq_idBytes, hc, hrt, hr, encTimeout, bind, Except.bind, pure, Except.pure]
      | some l =>
        by_cases h2 : now - start > l <;>
          simp [hm, Src.AdbDeviceAsync_read_expected_packet_from_device_iter, pysimp, encRead, encCmds, Py.unpackN, Py.nth, Py.inV, Py.contains, anyEq_idBytes, hc, hrt, hr, encTimeout, h2, bind, Except.bind, pure, Except.pure]

end Adb
