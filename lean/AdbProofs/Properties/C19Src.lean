import AdbProofs.Lemmas.SrcStore
/-
  C19 (source tie): the GENERATED translation of `hidden_helpers._AdbPacketStore` (`Adb.Src.AdbPacketStore_*` in
  `AdbModel/Generated/Src.lean`, produced from the current Python source over the Python-subset semantics `AdbModel/Py.lean`)
  equals the hand-written model `Adb.Store` (`AdbModel/Store.lean`) on every store, for all arguments, with no
  well-formedness hypothesis. Stores are related by the encoding `encStore` (`AdbProofs/Lemmas/SrcStore.lean`):
  `_dict = {arg1: {arg0: Queue[(cmd, data)]}}` with the model's association-list order as dict insertion order.
  The proofs unfold the generated definitions by name only (no temporaries' names, no copied bodies).
-/
namespace Adb
open Py
set_option linter.unusedSimpArgs false

/-- `_AdbPacketStore.__init__` on a fresh object creates exactly the empty store. -/
theorem C19_src_init (cls : String) :
    Src.AdbPacketStore_init (.obj cls []) = .ok (.none, encStore cls Store.empty) := by
  simp [Src.AdbPacketStore_init, dict_nil_enc, Store.empty, bind, Except.bind, pure, Except.pure]

/-- `_AdbPacketStore.clear_all` never fails and leaves the model's `clearAll` (the empty store). -/
theorem C19_src_clear_all (cls : String) (s : Store) :
    Src.AdbPacketStore_clear_all (encStore cls s) = .ok (.none, encStore cls (Store.clearAll s)) := by
  simp [Src.AdbPacketStore_clear_all, dict_nil_enc, Store.clearAll, bind, Except.bind, pure, Except.pure]

/-- `_AdbPacketStore.clear(arg0, arg1)` never fails and changes the store exactly as the model's `Store.clear`
    (including the removal of an inner dict that became empty), for every store. -/
theorem C19_src_clear (cls : String) (s : Store) (a0 a1 : Nat) :
    Src.AdbPacketStore_clear (encStore cls s) (.int a0) (.int a1) = .ok (.none, encStore cls (Store.clear s a0 a1)) := by
  simp only [Src.AdbPacketStore_clear, Store.clear]
  cases h1 : alookup a1 s with
  | none => simp [Py.inV, Py.andV, h1, bind, Except.bind, pure, Except.pure]
  | some inner =>
    cases h0 : alookup a0 inner with
    | none => simp [Py.inV, Py.andV, h1, h0, bind, Except.bind, pure, Except.pure]
    | some q =>
      simp [Py.inV, Py.andV, Py.not_, h1, h0, bind, Except.bind, pure, Except.pure]
      split <;> simp [adel_aset_self]

/-- `_AdbPacketStore.find(arg0, arg1)` (each argument an id or `None`) never fails and returns exactly the model's
    `Store.find`: `None` or the `(arg0, arg1)` tuple of the first matching non-empty queue in dict order. -/
theorem C19_src_find (cls : String) (s : Store) (a0 a1 : Option Nat) :
    Src.AdbPacketStore_find (encStore cls s) (encOptNat a0) (encOptNat a1) = .ok (encOptKey (Store.find s a0 a1)) := by
  simp only [Src.AdbPacketStore_find, Store.find]
  by_cases hs : s.isEmpty = true
  · simp [hs, Py.not_, bind, Except.bind, pure, Except.pure, encOptKey]
  · cases a1 with
    | none =>
      cases a0 with
      | none =>
        simp [hs, Py.not_, Py.isV, encOptNat, bind, Except.bind, pure, Except.pure]
        rw [firstM_outer (fun _ => true) (fun (k0 k1 : Nat) => .tuple [.int k0, .int k1])]
        · simp only [Py.optD, encOptKey_map]
        · intro k1 i
          conv => lhs; simp [Py.unpackN, Py.nth, bind, Except.bind, pure, Except.pure]
          rw [firstM_inner (fun _ => true) (fun (k0 : Nat) => .tuple [.int k0, .int k1])]
          intro k0 q
          simp [Py.unpackN, Py.nth, Py.not_, bind, Except.bind, pure, Except.pure]
          split <;> rfl
      | some x =>
        simp [hs, Py.not_, Py.isV, encOptNat, bind, Except.bind, pure, Except.pure]
        rw [firstM_outer (fun k0 => k0 == x) (fun (k0 k1 : Nat) => .tuple [.int k0, .int k1])]
        · simp only [Py.optD, encOptKey_map]
        · intro k1 i
          conv => lhs; simp [Py.unpackN, Py.nth, bind, Except.bind, pure, Except.pure]
          rw [firstM_inner (fun k0 => k0 == x) (fun (k0 : Nat) => .tuple [.int k0, .int k1])]
          intro k0 q
          simp [Py.unpackN, Py.nth, Py.not_, Py.eqV, Py.eq, Py.andV, bind, Except.bind, pure, Except.pure]
          by_cases hk : k0 = x
          · by_cases hq : q = [] <;> simp [hk, hq]
          · have hc : ¬ ((k0 : Int) = (x : Int)) := by omega
            simp [hk, hc]
    | some y =>
      cases hy : alookup y s with
      | none => simp [hs, hy, Py.not_, Py.isV, Py.notInV, encOptNat, encOptKey, bind, Except.bind, pure, Except.pure]
      | some inner =>
        cases a0 with
        | none =>
          simp [hs, hy, Py.not_, Py.isV, Py.notInV, encOptNat, bind, Except.bind, pure, Except.pure]
          rw [firstM_inner (fun _ => true) (fun (k0 : Nat) => .tuple [.int k0, .int y])]
          · cases Store.firstNonEmptyInner (fun _ => true) inner <;> simp [Py.optD, encOptKey]
          · intro k0 q
            simp [Py.unpackN, Py.nth, Py.not_, bind, Except.bind, pure, Except.pure]
            split <;> rfl
        | some x =>
          cases hx : alookup x inner with
          | none =>
            simp [hs, hy, hx, Py.not_, Py.isV, Py.notInV, Py.inV, Py.andV, encOptNat, encOptKey,
              bind, Except.bind, pure, Except.pure]
          | some q =>
            simp [hs, hy, hx, Py.not_, Py.isV, Py.notInV, Py.inV, Py.andV, encOptNat, encOptKey,
              bind, Except.bind, pure, Except.pure]
            by_cases hq : q = [] <;> simp [hq]

/-- `_AdbPacketStore.find_allow_zeros(arg0, arg1)` never fails and returns exactly the model's `Store.findAllowZeros`
    (the four `find` attempts `(arg0, arg1)`, `(arg0, 0)`, `(0, arg1)`, `(0, 0)` in that order). -/
theorem C19_src_find_allow_zeros (cls : String) (s : Store) (a0 a1 : Option Nat) :
    Src.AdbPacketStore_find_allow_zeros (encStore cls s) (encOptNat a0) (encOptNat a1)
      = .ok (encOptKey (Store.findAllowZeros s a0 a1)) := by
  have z : Py.Val.int 0 = encOptNat (some 0) := rfl
  simp only [Src.AdbPacketStore_find_allow_zeros, Store.findAllowZeros, z]
  simp only [Py.unpackN, Py.nth, List.length_cons, List.length_nil, if_true, bind, Except.bind, pure, Except.pure,
    List.getD_cons_zero, List.getD_cons_succ, C19_src_find, truthy_encOptKey]
  cases Store.find s a0 a1 <;> cases Store.find s a0 (some 0) <;> cases Store.find s (some 0) a1 <;>
    cases Store.find s (some 0) (some 0) <;> simp [encOptKey]

/-- `(arg0, arg1) in store` (`__contains__`) never fails and is the model's `Store.contains`. -/
theorem C19_src_contains (cls : String) (s : Store) (a0 a1 : Option Nat) :
    Src.AdbPacketStore_contains (encStore cls s) (.tuple [encOptNat a0, encOptNat a1])
      = .ok (.bool (Store.contains s a0 a1)) := by
  simp [Src.AdbPacketStore_contains, C19_src_find, Store.contains, Py.getItem, Py.boolV,
    bind, Except.bind, pure, Except.pure]

/-- `len(store)` (`__len__`) never fails and is the model's `Store.len` (the number of non-empty queues). -/
theorem C19_src_len (cls : String) (s : Store) :
    Src.AdbPacketStore_len (encStore cls s) = .ok (.int (Store.len s)) := by
  simp only [Src.AdbPacketStore_len, getAttr_encStore, values_encDict, bind, Except.bind]
  rw [flatMapM_valuesAL encInner s _ (fun i => i.flatMap fun kq => [Py.Val.bool (!kq.2.isEmpty)])]
  · simp [Py.sum_, sumInts_len, bind, Except.bind, pure, Except.pure]
  · intro i
    simp only [values_encInner, bind, Except.bind]
    rw [flatMapM_valuesAL encQueue i _ (fun q => [Py.Val.bool (!q.isEmpty)])]
    intro q
    simp [Py.not_, bind, Except.bind, pure, Except.pure]

/-- `_AdbPacketStore.put(arg0, arg1, cmd, data)` never fails and changes the store exactly as the model's `Store.put`
    (a `CLSE` for a queue that does not exist is dropped; otherwise the packet is appended, creating the queue). -/
theorem C19_src_put (cls : String) (s : Store) (a0 a1 : Nat) (cmd : Cmd) (data : Bytes) :
    Src.AdbPacketStore_put (encStore cls s) (.int a0) (.int a1) (.bytes cmd.bytes) (.bytes data)
      = .ok (.none, encStore cls (Store.put s a0 a1 cmd data)) := by
  simp only [Src.AdbPacketStore_put, Store.put, Src.const_CLSE]
  cases h1 : alookup a1 s with
  | none =>
    by_cases hc : cmd = .CLSE
    · simp [h1, hc, Py.inV, Py.eqV, Py.eq, Cmd.bytes_beq_CLSE, bind, Except.bind, pure, Except.pure]
    · simp [h1, hc, Py.inV, Py.eqV, Py.eq, Cmd.bytes_beq_CLSE, queue_nil_enc, alookup, aset, aset_aset_self,
        bind, Except.bind, pure, Except.pure]
  | some inner =>
    cases h0 : alookup a0 inner with
    | none =>
      by_cases hc : cmd = .CLSE
      · simp [h1, h0, hc, Py.inV, Py.notInV, Py.eqV, Py.eq, Cmd.bytes_beq_CLSE, bind, Except.bind, pure, Except.pure]
      · simp [h1, h0, hc, Py.inV, Py.notInV, Py.eqV, Py.eq, Cmd.bytes_beq_CLSE, queue_nil_enc, aset_aset_self,
          bind, Except.bind, pure, Except.pure]
    | some q =>
      simp [h1, h0, Py.inV, Py.notInV, Py.eqV, Py.eq, Cmd.bytes_beq_CLSE, queue_nil_enc, aset_aset_self,
        bind, Except.bind, pure, Except.pure]

/-- `_AdbPacketStore.get(arg0, arg1)` (each argument an id or `None`) behaves exactly as the model's `Store.get`:
    same returned packet `(cmd, arg0, arg1, data)` and same store afterwards (including the `clear` after a `CLSE`),
    and it raises `TypeError` / `KeyError` / `queue.Empty` in exactly the cases the model reports them. -/
theorem C19_src_get (cls : String) (s : Store) (a0 a1 : Option Nat) :
    Src.AdbPacketStore_get (encStore cls s) (encOptNat a0) (encOptNat a1)
      = match Store.get s a0 a1 with
        | .ok ((cmd, x, y, data), s') => .ok (.tuple [.bytes cmd.bytes, .int x, .int y, .bytes data], encStore cls s')
        | .error .typeError => .error .typeError
        | .error .keyError => .error .keyError
        | .error .queueEmpty => .error .queueEmpty := by
  simp only [Src.AdbPacketStore_get, Store.get, Src.const_CLSE]
  cases a0 with
  | some x =>
    cases a1 with
    | some y =>
      simp only [encOptNat, Py.isV, Py.orV, truthy_bool, bind, Except.bind, pure, Except.pure]
      simp
      src_get_tail x y C19_src_clear
    | none =>
      simp only [C19_src_find, Py.isV, Py.orV, truthy_bool, bind, Except.bind, pure, Except.pure]
      simp [encOptNat]
      cases hf : Store.find s (some x) none with
      | none => simp [encOptKey, Py.unpackN, throw, throwThe, MonadExceptOf.throw]
      | some k =>
        obtain ⟨x', y'⟩ := k
        simp [encOptKey, Py.unpackN, Py.nth, pure, Except.pure]
        src_get_tail x' y' C19_src_clear
  | none =>
    simp only [C19_src_find, Py.isV, Py.orV, truthy_bool, bind, Except.bind, pure, Except.pure]
    simp [encOptNat]
    cases hf : Store.find s none a1 with
    | none => cases a1 <;> simp [encOptKey, Py.unpackN, throw, throwThe, MonadExceptOf.throw]
    | some k =>
      obtain ⟨x', y'⟩ := k
      cases a1 <;> simp [encOptKey, Py.unpackN, Py.nth, pure, Except.pure] <;> src_get_tail x' y' C19_src_clear

/-! ### non-vacuity: the theorems have no hypotheses; the examples show that the encoded stores are non-trivial Python
    values and that every outcome of `get` (a packet, a packet followed by the `CLSE` clean-up, and each of the three
    exceptions) occurs on concrete stores, on the generated side as well as on the model side. -/

/-- a store with two streams: `(arg0, arg1) = (7, 1)` holds `WRTE b"\x01"` then `CLSE`, `(8, 2)` holds an empty queue -/
example : encStore "_AdbPacketStore" [(1, [(7, [(.WRTE, [1]), (.CLSE, [])])]), (2, [(8, [])])]
    = .obj "_AdbPacketStore" [("_dict", .dict [
        (.int 1, .dict [(.int 7, .queue [.tuple [.bytes [87, 82, 84, 69], .bytes [1]], .tuple [.bytes [67, 76, 83, 69], .bytes []]])]),
        (.int 2, .dict [(.int 8, .queue [])])])] := by
  have h1 : Cmd.WRTE.bytes = [87, 82, 84, 69] := by decide
  have h2 : Cmd.CLSE.bytes = [67, 76, 83, 69] := by decide
  simp [encStore, encDict, encInner, encQueue, encQItem, encAL, h1, h2]

example : Src.AdbPacketStore_find (encStore "S" [(2, [(8, [])]), (1, [(7, [(.WRTE, [1])])])]) .none .none
    = .ok (.tuple [.int 7, .int 1]) :=
  C19_src_find "S" _ none none

example : Src.AdbPacketStore_get (encStore "S" [(1, [(7, [(.WRTE, [1]), (.CLSE, [])])])]) .none (.int 1)
    = .ok (.tuple [.bytes [87, 82, 84, 69], .int 7, .int 1, .bytes [1]], encStore "S" [(1, [(7, [(.CLSE, [])])])]) :=
  C19_src_get "S" _ none (some 1)

/-- reading the `CLSE` removes the stream and, with it, the emptied inner dict -/
example : Src.AdbPacketStore_get (encStore "S" [(1, [(7, [(.CLSE, [])])])]) (.int 7) (.int 1)
    = .ok (.tuple [.bytes [67, 76, 83, 69], .int 7, .int 1, .bytes []], encStore "S" []) :=
  C19_src_get "S" _ (some 7) (some 1)

example : Src.AdbPacketStore_get (encStore "S" [(2, [(8, [])])]) .none .none = .error .typeError :=
  C19_src_get "S" _ none none
example : Src.AdbPacketStore_get (encStore "S" [(2, [(8, [])])]) (.int 8) (.int 3) = .error .keyError :=
  C19_src_get "S" _ (some 8) (some 3)
example : Src.AdbPacketStore_get (encStore "S" [(2, [(8, [])])]) (.int 8) (.int 2) = .error .queueEmpty :=
  C19_src_get "S" _ (some 8) (some 2)

example : Src.AdbPacketStore_len (encStore "S" [(1, [(7, [(.WRTE, [1])]), (9, [])]), (2, [(8, [(.OKAY, [])])])]) = .ok (.int 2) :=
  C19_src_len "S" _

end Adb
