import AdbProofs.Lemmas.SrcEnc
import AdbModel.Generated.Src
/-
  C19 / C01 / C06 (tie to the source, by proof) — stream matching, including the legacy zero-id fallback
  (`hidden_helpers._AdbTransactionInfo.args_match`, anchor of C19): the translation of the CURRENT source (harness/pytrans.py, regenerated on
  every run) computes exactly the model's `Txn.argsMatch`, the predicate every delivery / isolation theorem (C01, C04, C06) is stated with.
  Only property theorems and non-vacuity examples live here.
-/
set_option linter.unusedSimpArgs false
namespace Adb
open Py

/-- For every transaction info (local id and remote id each a number or `None`), every packet id pair and both values of `allow_zeros`, the
    source's `args_match(arg0, arg1, allow_zeros)` returns the boolean the model's `Txn.argsMatch` returns. -/
theorem C19_src_args_match (cls : String) (fs : List (String × Py.Val)) (t : Txn) (a0 a1 : Nat) (az : Bool)
    (hl : alookupS "local_id" fs = some (encOptNat t.localId)) (hr : alookupS "remote_id" fs = some (encOptNat t.remoteId)) :
    Src.AdbTransactionInfo_args_match (.obj cls fs) (.int a0) (.int a1) (.bool az) = .ok (.bool (t.argsMatch a0 a1 az)) := by
  obtain ⟨l, r, tt, rt, total⟩ := t
  cases az <;> cases l <;> cases r <;>
    simp [Src.AdbTransactionInfo_args_match, Txn.argsMatch, pysimp, hl, hr, encOptNat] <;>
    (repeat' split) <;> simp_all
  all_goals first | omega | (rw [Bool.eq_iff_iff]; simp only [Bool.or_eq_true, Bool.and_eq_true, beq_iff_eq]; omega)

/-! ### Non-vacuity: exact match, zero fallback, unknown remote id, foreign stream (concrete objects meet the hypotheses) -/
example : Src.AdbTransactionInfo_args_match (.obj "_AdbTransactionInfo" [("local_id", .int 5), ("remote_id", .int 9)]) (.int 9) (.int 5) (.bool false)
    = .ok (.bool true) :=
  C19_src_args_match "_AdbTransactionInfo" _ ⟨some 5, some 9, none, none, none⟩ 9 5 false rfl rfl
example : Src.AdbTransactionInfo_args_match (.obj "_AdbTransactionInfo" [("local_id", .int 5), ("remote_id", .int 9)]) (.int 0) (.int 0) (.bool true)
    = .ok (.bool true) :=
  C19_src_args_match "_AdbTransactionInfo" _ ⟨some 5, some 9, none, none, none⟩ 0 0 true rfl rfl
example : Src.AdbTransactionInfo_args_match (.obj "_AdbTransactionInfo" [("local_id", .int 5), ("remote_id", .none)]) (.int 77) (.int 5) (.bool false)
    = .ok (.bool true) :=
  C19_src_args_match "_AdbTransactionInfo" _ ⟨some 5, none, none, none, none⟩ 77 5 false rfl rfl
example : Src.AdbTransactionInfo_args_match (.obj "_AdbTransactionInfo" [("local_id", .int 5), ("remote_id", .int 9)]) (.int 9) (.int 6) (.bool true)
    = .ok (.bool false) :=
  C19_src_args_match "_AdbTransactionInfo" _ ⟨some 5, some 9, none, none, none⟩ 9 6 true rfl rfl

end Adb
