import AdbProofs.Lemmas.ConcLemmas
import AdbModel.Generated.AstFacts
/-
  C06 — concurrent streams are isolated; no deadlock.   (partial: K1)
  Model: `AdbModel/Conc.lean` (atomic steps = the lock-protected blocks of `_AdbIOManager.read`).
  Vocabulary (defined in `AdbProofs/Lemmas/ConcLemmas.lean`):
    `Initial sys`    = `WellFormed sys ∧ sys.store = [] ∧ sys.lost = [] ∧` every reader is fresh
                       (`given = []`, `dropped = []`, `done = false`, `inLoop = false`);
    `ownOf r ps`     = the packets of `ps` with `(arg0, arg1) = (r.rid, r.lid)` (from the model);
    `parked st r`    = the queue the store `st` holds under `(r.rid, r.lid)`, as packets, oldest first;
    `lostOf s r`     = the packets of `s.lost` (discarded by `put`, K1) addressed to `r`'s stream;
    `soloSched i n`  = `pre i, iter i` repeated `n` times.
  The legacy zero-id fallbacks of `args_match` / `find_allow_zeros` (`Reader.owns`, `findAllowZeros`)
  are excluded by `WellFormed` (all ids non-zero); with a zero id the statements below are false.
  The full property (isolation and completion for EVERY schedule) is false of the code:
  `C06_K1_witness` is its machine-checked negation; the other theorems are the strongest true parts.
-/
namespace Adb
open Conc

/-- The unrestricted isolation property is FALSE of the code (K1): there is a well-formed two-reader
    system, starting with an empty store, and a schedule in which reader 1 takes reader 0's CLSE off
    the transport while the store has no entry for reader 0's stream; `put` discards it, the transport
    is drained completely, and reader 0 is never given a CLSE and never completes. -/
theorem C06_K1_witness :
    ∃ (sys : Sys) (sched : List Choice) (i : Nat), WellFormed sys ∧ sys.store = [] ∧ sys.lost = [] ∧ (run sys sched).lost ≠ [] ∧
      (run sys sched).wire = [] ∧
      (∃ r : Reader, (run sys sched).readers[i]? = some r ∧ r.done = false ∧ ∀ p ∈ r.given, p.cmd ≠ .CLSE) := by
  refine ⟨sysK1, schedK1, 0, wellFormed_of_B (by decide), rfl, rfl, by decide, by decide, ?_⟩
  refine ⟨{ lid := 1, rid := 11, inLoop := true, given := [⟨.WRTE, 11, 1, [97]⟩] }, by decide, rfl, by decide⟩

/-- Conservation, for EVERY schedule.  Start from a well-formed system with an empty store, nothing
    lost and no reader started (`Initial`), run any schedule, and look at any reader `i` (initially
    `r₀`, now `r`).  The packets the device sent on stream `i`, in the order sent, are exactly: those
    already given to reader `i`, then those parked in the store under the pair `(rid, lid)` of stream
    `i`, then those still on the transport, then those `put` discarded (K1).  Reader `i` discarded
    nothing itself, every lost packet is a CLSE, and a lost packet of stream `i` is the last packet
    the device sent on that stream. -/
theorem C06_conservation (sys₀ : Sys) (h₀ : Initial sys₀) (sched : List Choice) (i : Nat) (r₀ : Reader)
    (hr₀ : sys₀.readers[i]? = some r₀) :
    ∃ r : Reader, (run sys₀ sched).readers[i]? = some r ∧ r.lid = r₀.lid ∧ r.rid = r₀.rid ∧
      ownOf r₀ sys₀.wire =
        r.given ++ parked (run sys₀ sched).store r₀ ++ ownOf r₀ (run sys₀ sched).wire ++ lostOf (run sys₀ sched) r₀ ∧
      r.dropped = [] ∧
      (∀ p ∈ (run sys₀ sched).lost, p.cmd = Cmd.CLSE) ∧
      (∀ p ∈ lostOf (run sys₀ sched) r₀, (ownOf r₀ sys₀.wire).getLast? = some p) := by
  have h := reach_inv h₀ sched
  obtain ⟨r, hr, e1, e2⟩ := inv_reader h hr₀
  exact ⟨r, hr, e1, e2, inv_cons₀ h hr₀ hr, (h.cons i r hr).2.1, h.lostC,
    fun p hp => lost_is_last h₀.1 h hr₀ hp⟩

/-- No crosstalk: whatever the schedule, every packet given to reader `i` carries exactly the ids of
    stream `i`; nothing addressed to another stream is ever delivered to it. -/
theorem C06_no_crosstalk (sys₀ : Sys) (h₀ : Initial sys₀) (sched : List Choice) (i : Nat) (r : Reader)
    (hr : (run sys₀ sched).readers[i]? = some r) :
    ∀ p ∈ r.given, p.arg0 = r.rid ∧ p.arg1 = r.lid := by
  intro p hp
  have h := reach_inv h₀ sched
  have hE := (h.cons i r hr).1
  have : p ∈ ownOf r sys₀.wire := by rw [hE, view]; simp [hp]
  rw [ownOf_eq, List.mem_filter] at this
  simpa [ownB, and_comm] using this.2

/-- No duplication, no reordering, no gap: whatever the schedule, what reader `i` has been given so
    far is a prefix of the packets the device sent on stream `i`, in the order sent. -/
theorem C06_no_duplication_no_reorder (sys₀ : Sys) (h₀ : Initial sys₀) (sched : List Choice) (i : Nat)
    (r₀ r : Reader) (hr₀ : sys₀.readers[i]? = some r₀) (hr : (run sys₀ sched).readers[i]? = some r) :
    r.given <+: ownOf r₀ sys₀.wire := by
  have hE := inv_cons₀ (reach_inv h₀ sched) hr₀ hr
  exact ⟨parked (run sys₀ sched).store r₀ ++ ownOf r₀ (run sys₀ sched).wire ++ lostOf (run sys₀ sched) r₀,
    by rw [hE]; simp⟩

/-- The only loss is K1.  (1) Every packet the device sent on stream `i` is given to reader `i`, or
    parked for it, or still on the transport — or it is in `lost`, and then it is a CLSE and the last
    packet of its stream.  (2) In a reachable state, a step makes `lost` grow only when the stepping
    reader `j` takes a CLSE of a stream that is not its own off the transport while the store has no
    entry for that stream — exactly the branch of `_AdbPacketStore.put` that returns early. -/
theorem C06_only_loss_is_K1 (sys₀ : Sys) (h₀ : Initial sys₀) (sched : List Choice) :
    (∀ (i : Nat) (r₀ r : Reader), sys₀.readers[i]? = some r₀ → (run sys₀ sched).readers[i]? = some r →
      ∀ p ∈ ownOf r₀ sys₀.wire,
        p ∈ r.given ∨ p ∈ parked (run sys₀ sched).store r₀ ∨ p ∈ ownOf r₀ (run sys₀ sched).wire ∨
        (p ∈ (run sys₀ sched).lost ∧ p.cmd = Cmd.CLSE ∧ (ownOf r₀ sys₀.wire).getLast? = some p)) ∧
    (∀ c : Choice, (step (run sys₀ sched) c).lost = (run sys₀ sched).lost ∨
      ∃ (j : Nat) (rj : Reader) (p : Pkt) (rest : List Pkt), c = .iter j ∧
        (run sys₀ sched).readers[j]? = some rj ∧ ownB rj p = false ∧
        (run sys₀ sched).wire = p :: rest ∧ p.cmd = Cmd.CLSE ∧
        (run sys₀ sched).store.queue p.arg0 p.arg1 = none ∧
        (step (run sys₀ sched) c).lost = (run sys₀ sched).lost ++ [p]) := by
  have h := reach_inv h₀ sched
  refine ⟨?_, fun c => step_lost h₀.1 h c⟩
  intro i r₀ r hr₀ hr p hp
  rw [inv_cons₀ h hr₀ hr] at hp
  simp only [List.mem_append] at hp
  rcases hp with ((hp | hp) | hp) | hp
  · exact Or.inl hp
  · exact Or.inr (Or.inl hp)
  · exact Or.inr (Or.inr (Or.inl hp))
  · exact Or.inr (Or.inr (Or.inr ⟨(List.mem_filter.1 hp).1, h.lostC p (List.mem_filter.1 hp).1,
      lost_is_last h₀.1 h hr₀ hp⟩))

/-
  FULL isolation statement (FALSE of the code, refuted by `C06_K1_witness`):
    ∀ sys₀ sched i, Initial sys₀ → fair sched → (run sys₀ sched).readers[i].given = aloneGiven r₀ sys₀.wire
  What holds for every schedule is the prefix statement below; equality needs `lostOf … r₀ = []`.
-/

/-- Isolation, the part that holds for every schedule: what reader `i` has been given is a prefix of
    what it would be given if it were alone on the transport (`aloneGiven`: its packets up to and
    including its CLSE).  (The hypothesis "nothing was lost" is not needed for the prefix.) -/
theorem C06_isolation_partial (sys₀ : Sys) (h₀ : Initial sys₀) (sched : List Choice) (i : Nat)
    (r₀ r : Reader) (hr₀ : sys₀.readers[i]? = some r₀) (hr : (run sys₀ sched).readers[i]? = some r) :
    r.given <+: aloneGiven r₀ sys₀.wire := by
  rw [aloneGiven_eq_ownOf h₀.1 (List.mem_of_getElem? hr₀)]
  exact C06_no_duplication_no_reorder sys₀ h₀ sched i r₀ r hr₀ hr

/-- Same result as alone, when the reader completes: if reader `i` is done (it was given its CLSE),
    or if nothing of stream `i` was lost and nothing of it is parked or left on the transport, then
    it has been given exactly what it would have been given alone. -/
theorem C06_completes_partial (sys₀ : Sys) (h₀ : Initial sys₀) (sched : List Choice) (i : Nat)
    (r₀ r : Reader) (hr₀ : sys₀.readers[i]? = some r₀) (hr : (run sys₀ sched).readers[i]? = some r) :
    (r.done = true → r.given = aloneGiven r₀ sys₀.wire) ∧
    (lostOf (run sys₀ sched) r₀ = [] → parked (run sys₀ sched).store r₀ = [] →
      ownOf r₀ (run sys₀ sched).wire = [] → r.given = aloneGiven r₀ sys₀.wire) := by
  have h := reach_inv h₀ sched
  have hm : r₀ ∈ sys₀.readers := List.mem_of_getElem? hr₀
  have hE := inv_cons₀ h hr₀ hr
  rw [aloneGiven_eq_ownOf h₀.1 hm]
  constructor
  · intro hd
    rw [(h.cons i r hr).2.2, List.any_eq_true] at hd
    obtain ⟨p, hp, hc⟩ := hd
    obtain ⟨a, b, hab⟩ := List.append_of_mem hp
    have hpost := h₀.1.2.2.2 r₀ hm a p
      (b ++ parked (run sys₀ sched).store r₀ ++ ownOf r₀ (run sys₀ sched).wire ++ lostOf (run sys₀ sched) r₀)
      (by rw [hE, hab]; simp) (by simpa using hc)
    simp only [List.append_eq_nil_iff] at hpost
    rw [hE, hpost.1.1.2, hpost.1.2, hpost.2]
    simp
  · intro h1 h2 h3
    rw [hE, h1, h2, h3]
    simp

/-
  FULL completion statement (FALSE of the code because of K1, see `C06_K1_witness`):
    every reader of every fair schedule ends with `given = aloneGiven r₀ sys₀.wire`.
  Proved below: from EVERY reachable state, letting reader `i` run (`pre i, iter i` repeated) for as
  many rounds as there are packets on the transport and parked for it makes it end with exactly the
  result it would have alone — unless its CLSE was lost (K1).  Not proved: the same conclusion for an
  arbitrary fair interleaving of the remaining steps (the suffix here is reader `i` running alone;
  the other readers may be in any state and may have run in any order before).
-/

/-- Completion, no schedule deadlocks the reader: after any schedule `sched`, let reader `i` run for
    `n` rounds, `n` at least the number of packets then on the transport plus those parked for it.
    Then reader `i` has been given exactly what it would have been given alone, and it is done
    exactly if alone it would be done (its stream's CLSE was sent) — or a packet of its stream was
    lost (K1). -/
theorem C06_completes_after_solo_partial (sys₀ : Sys) (h₀ : Initial sys₀) (sched : List Choice) (i : Nat)
    (r₀ : Reader) (hr₀ : sys₀.readers[i]? = some r₀) (n : Nat)
    (hn : (run sys₀ sched).wire.length + (parked (run sys₀ sched).store r₀).length ≤ n) :
    ∃ r : Reader, (run sys₀ (sched ++ soloSched i n)).readers[i]? = some r ∧
      ((r.given = aloneGiven r₀ sys₀.wire ∧ r.done = (aloneGiven r₀ sys₀.wire).any (·.cmd == Cmd.CLSE))
        ∨ lostOf (run sys₀ (sched ++ soloSched i n)) r₀ ≠ []) := by
  have h := reach_inv h₀ sched
  obtain ⟨r, hr, ids⟩ := inv_reader h hr₀
  obtain ⟨r', hr', hcase⟩ := solo_progress h₀.1 (ρ := r₀) n _ h r hr ids hn
  rw [← run_append] at hr' hcase
  have h' := reach_inv h₀ (sched ++ soloSched i n)
  have hdn := (h'.cons i r' hr').2.2
  obtain ⟨c1, c2⟩ := C06_completes_partial sys₀ h₀ (sched ++ soloSched i n) i r₀ r' hr₀ hr'
  refine ⟨r', hr', ?_⟩
  rcases hcase with hd | hz
  · have hg := c1 hd
    exact Or.inl ⟨hg, by rw [← hg]; exact hdn⟩
  · by_cases hl : lostOf (run sys₀ (sched ++ soloSched i n)) r₀ = []
    · simp only [mu, Nat.add_eq_zero_iff, List.length_eq_zero_iff] at hz
      have hg := c2 hl hz.2 (by rw [hz.1]; rfl)
      exact Or.inl ⟨hg, by rw [← hg]; exact hdn⟩
    · exact Or.inr hl

/-- Lock order, on facts GENERATED from the source AST of `adb_device.py` / `adb_device_async.py`:
    the only nesting of locks is "store lock inside transport lock" (one edge, so the nesting graph
    is acyclic: no edge is a loop and no edge is reversed); while the store lock is held only
    `_AdbPacketStore` methods are called (never the transport, never another lock); while the
    local-id lock is held only a constructor and a timeout getter are called. -/
theorem C06_lock_order :
    Generated.lockEdgesSync = [("transport", "store")] ∧ Generated.lockEdgesAsync = [("transport", "store")] ∧
    (∀ e ∈ Generated.lockEdgesSync ++ Generated.lockEdgesAsync,
      e.1 ≠ e.2 ∧ (e.2, e.1) ∉ Generated.lockEdgesSync ++ Generated.lockEdgesAsync) ∧
    (∀ c ∈ Generated.storeLockCallsSync ++ Generated.storeLockCallsAsync,
      c.startsWith "self._packet_store." = true) ∧
    (∀ c ∈ Generated.localIdLockCallsSync ++ Generated.localIdLockCallsAsync,
      c ∈ ["_AdbTransactionInfo", "self._get_transport_timeout_s"]) := by
  refine ⟨by decide, by decide, by decide, by decide +kernel, by decide⟩

/-- No deadlock under an ordered locking discipline: if every thread only ever requests a lock of
    rank greater than every lock it holds (`Thr.Ordered`; in the code: transport = 0 < store = 1,
    local-id lock never nested), then in every non-empty configuration some thread is not blocked —
    it either waits for nothing, or the lock it waits for is held by no other thread. -/
theorem C06_no_deadlock (cfg : List Thr) (hne : cfg ≠ []) (hord : ∀ t ∈ cfg, t.Ordered) :
    ∃ i, i < cfg.length ∧ ¬ Blocked cfg i := by
  by_cases hw : ∃ t ∈ cfg, Thr.wants t = none
  · obtain ⟨t, ht, hn⟩ := hw
    obtain ⟨i, hi, hti⟩ := List.getElem_of_mem ht
    refine ⟨i, hi, ?_⟩
    rintro ⟨t', l', hi', hl', _⟩
    rw [List.getElem?_eq_getElem hi, hti] at hi'
    cases hi'
    rw [hn] at hl'
    cases hl'
  · have hw : ∀ t ∈ cfg, Thr.wants t ≠ none := fun t ht hn => hw ⟨t, ht, hn⟩
    obtain ⟨i, t, l, hi, hl, hmax⟩ := exists_max_want cfg hne hw
    refine ⟨i, ?_, ?_⟩
    · rcases Nat.lt_or_ge i cfg.length with h | h
      · exact h
      · rw [List.getElem?_eq_none h] at hi; simp at hi
    · rintro ⟨t', l', hi', hl', j, u, _, hu, hmem⟩
      rw [hi] at hi'
      cases hi'
      rw [hl] at hl'
      cases hl'
      have hum : u ∈ cfg := List.mem_of_getElem? hu
      obtain ⟨lu, hlu⟩ := Option.ne_none_iff_exists'.1 (hw u hum)
      have h1 := hord u hum lu hlu l hmem
      have h2 := hmax u hum lu hlu
      omega

/-! ### Non-vacuity -/

/-- the hypotheses of the theorems are satisfiable: the two-reader system above is `Initial` -/
example : Initial sysK1 := ⟨wellFormed_of_B (by decide), rfl, rfl, by decide⟩

/-- a full schedule of the two-reader system in which nothing is lost delivers everything to both
    readers, exactly what each would be given alone -/
example : (run sysK1 schedGood).lost = [] ∧ (run sysK1 schedGood).wire = [] ∧ (run sysK1 schedGood).store = [] ∧
    (run sysK1 schedGood).readers.map (·.given) =
      [aloneGiven { lid := 1, rid := 11 } sysK1.wire, aloneGiven { lid := 2, rid := 12 } sysK1.wire] ∧
    (run sysK1 schedGood).readers.map (·.done) = [true, true] := by decide

/-- the K1 schedule: reader 0 has a proper prefix of what it would be given alone, its CLSE is in `lost` -/
example : (run sysK1 schedK1).lost = [⟨.CLSE, 11, 1, []⟩] ∧
    (run sysK1 schedK1).readers.map (·.given) = [[⟨.WRTE, 11, 1, [97]⟩], [⟨.WRTE, 12, 2, [98]⟩, ⟨.CLSE, 12, 2, []⟩]] ∧
    aloneGiven { lid := 1, rid := 11 } sysK1.wire = [⟨.WRTE, 11, 1, [97]⟩, ⟨.CLSE, 11, 1, []⟩] := by decide

/-- `C06_completes_after_solo_partial` on the K1 system: after reader 1 parked reader 0's WRTE, two
    rounds of reader 0 alone complete it with the result it would have alone -/
example : (run sysK1 ([.pre 1, .iter 1, .iter 1] ++ soloSched 0 2)).readers[0]?.map (·.given) =
    some (aloneGiven { lid := 1, rid := 11 } sysK1.wire) := by decide

/-- the lock discipline of the code in the abstract model: thread 0 holds the transport lock (rank 0)
    and waits for the store lock (rank 1) held by thread 1; thread 2 waits for the transport lock.
    Thread 1 is not blocked. -/
example : ∃ i, i < 3 ∧ ¬ Blocked [⟨[0], some 1⟩, ⟨[1], none⟩, ⟨[], some 0⟩] i :=
  C06_no_deadlock [⟨[0], some 1⟩, ⟨[1], none⟩, ⟨[], some 0⟩] (by simp) (by simp [Thr.Ordered])

end Adb
