import AdbProofs.Lemmas.TimeLemmas
/-
  C11 (timing part) — if the device stops sending what an operation is waiting for (total silence,
  end-of-stream, bytes trickling too slowly, or only traffic for other streams or unexpected commands), the
  operation fails with AdbTimeoutError or the transport's timeout error within a time bounded by a small
  multiple of read_timeout_s + transport_timeout_s, instead of blocking forever or returning fabricated data.

  Setting: virtual clock `World.now` (ticks); "conforming transport" `w.CallCost D`: every completed call on
  the open connection takes between 1 and `D` ticks; a call that finds nothing waits its transport timeout
  `τ` and raises the transport's timeout error.  `R` = read_timeout_s, `τ` = transport_timeout_s, both
  numbers (`t.rt = some R`, `t.tt = some τ`), `0 ≤ R`, `0 ≤ τ`.  The loop budget must exceed the read
  timeout: `R.toNat < w.fuel` (each completed non-final iteration costs at least one tick and is followed by
  the deadline test, so at most `R + 1` iterations happen).  The bounds hold for EVERY world, i.e. whatever
  the device and the transport script do.
  Only property theorems and non-vacuity examples live here; helper lemmas are in
  AdbProofs/Lemmas/TimeLemmas.lean (which also defines `World.CallCost` and `parkedCount`).
-/
namespace Adb

/-- One `bulk_read(n, τ)` on a conforming transport takes between 0 and `max D τ` ticks and never blocks
    forever: a normal return costs between 1 and `D` ticks, the transport's timeout error costs exactly `τ`,
    the only other outcome is a transport error, which costs nothing.  The call-cost invariant is kept. -/
theorem C11_bulkRead_time (n : Nat) (τ D : Int) (w : World) (r : Except Err Bytes) (w' : World)
    (h : bulkRead n (some τ) w = (r, w')) (hτ : 0 ≤ τ) (hc : w.CallCost D) :
    0 ≤ w'.now - w.now ∧ w'.now - w.now ≤ max D τ ∧ r ≠ .error .hang ∧ w'.CallCost D ∧
    (∀ bs, r = .ok bs → 1 ≤ w'.now - w.now ∧ w'.now - w.now ≤ D) ∧
    (∀ e, r = .error e → (e = .transportTimeout ∧ w'.now - w.now = τ) ∨ (e = .transportError ∧ w'.now - w.now = 0)) := by
  obtain ⟨h1, h2, h3⟩ := bulkRead_time n τ D w r w' h hτ hc
  cases r with
  | ok bs =>
    obtain ⟨a, b⟩ := h2 bs rfl
    exact ⟨by omega, by omega, by simp, h1, h2, by simp⟩
  | error e =>
    refine ⟨?_, ?_, ?_, h1, by simp, ?_⟩
    · rcases h3 e rfl with ⟨-, a⟩ | ⟨-, a⟩ <;> omega
    · rcases h3 e rfl with ⟨-, a⟩ | ⟨-, a⟩ <;> omega
    · rcases h3 e rfl with ⟨rfl, -⟩ | ⟨rfl, -⟩ <;> simp
    · intro e' he'
      simp only [Except.error.injEq] at he'; subst he'
      rcases h3 _ rfl with ⟨a, b⟩ | ⟨a, b⟩
      · exact Or.inl ⟨a, b⟩
      · exact Or.inr ⟨a, by omega⟩

/-- A blocking `bulk_read` (`transport_timeout_s = None`) ends in `hang` only in the situation the definition
    names: the connection is open, not reset, not at end-of-stream, and either a scripted "timeout" fault sits
    at the current read offset, or no fault is there and nothing is readable.  The clock does not move. -/
theorem C11_bulkRead_blocking (n : Nat) (w w' : World) (h : bulkRead n none w = (.error .hang, w')) :
    w'.now = w.now ∧ ∃ c, w.cur = some c ∧ c.isReset = false ∧ c.isEof = false ∧
      ((∃ f, nextFault true c.inOff c.faults = some f ∧ f.kind = .timeout) ∨
       (nextFault true c.inOff c.faults = none ∧ anyReadable c.outOff c.segs = false)) :=
  bulkRead_hang_inv n w w' h

/-- `_read_bytes_from_device(n)`: whatever the device does, it never hangs, ends at most `R + max D τ` ticks
    after it started (the last `bulk_read` starts no later than the deadline and lasts at most `max D τ`),
    fails only with AdbTimeoutError, the transport's timeout error or a transport error, and keeps the
    call-cost invariant. -/
theorem C11_readBytes_bound (n : Nat) (t : Txn) (R τ D : Int) (w : World) (r : Except Err Bytes) (w' : World)
    (h : readBytes n t w = (r, w')) (hrt : t.rt = some R) (htt : t.tt = some τ) (hR : 0 ≤ R) (hτ : 0 ≤ τ)
    (hc : w.CallCost D) (hf : R.toNat < w.fuel) :
    r ≠ .error .hang ∧ 0 ≤ w'.now - w.now ∧ w'.now - w.now ≤ R + max D τ ∧ w'.CallCost D ∧
    (∀ e, r = .error e → e = .adbTimeout ∨ e = .transportTimeout ∨ e = .transportError) := by
  obtain ⟨h1, h2, h3, h4, -, -⟩ := readBytes_time n t R τ D w r w' h hrt htt hR hτ hc (by omega)
  refine ⟨?_, by omega, h3, h1, fun e he => by simpa [waitErrs] using h4 e he⟩
  intro hr; exact hang_not_mem_waitErrs (h4 _ hr)

/-- `_write_all(data)`: never hangs, ends at most `R + max D τ` ticks after it started, fails only with
    AdbTimeoutError, the transport's timeout error or a transport error. -/
theorem C11_writeAll_bound (data : Bytes) (t : Txn) (R τ D : Int) (w : World) (r : Except Err Unit) (w' : World)
    (h : writeAll data t w = (r, w')) (hrt : t.rt = some R) (htt : t.tt = some τ) (hR : 0 ≤ R) (hτ : 0 ≤ τ)
    (hc : w.CallCost D) (hf : R.toNat < w.fuel) :
    r ≠ .error .hang ∧ 0 ≤ w'.now - w.now ∧ w'.now - w.now ≤ R + max D τ ∧ w'.CallCost D ∧
    (∀ e, r = .error e → e = .adbTimeout ∨ e = .transportTimeout ∨ e = .transportError) := by
  obtain ⟨h1, h2, h3, h4, -, -⟩ := writeAll_time data t R τ D w r w' h hrt htt hR hτ hc (by omega)
  refine ⟨?_, by omega, h3, h1, fun e he => by simpa [waitErrs] using h4 e he⟩
  intro hr; exact hang_not_mem_waitErrs (h4 _ hr)

/-- `_read_packet_from_device`: header wait + payload wait, so at most `2 * (R + max D τ)` ticks; never
    hangs; fails only with the three wait errors or because the bytes read are not a valid packet. -/
theorem C11_readPacket_bound (t : Txn) (R τ D : Int) (w : World) (r : Except Err Pkt) (w' : World)
    (h : readPacket t w = (r, w')) (hrt : t.rt = some R) (htt : t.tt = some τ) (hR : 0 ≤ R) (hτ : 0 ≤ τ)
    (hc : w.CallCost D) (hf : R.toNat < w.fuel) :
    r ≠ .error .hang ∧ 0 ≤ w'.now - w.now ∧ w'.now - w.now ≤ 2 * (R + max D τ) ∧ w'.CallCost D ∧
    (∀ e, r = .error e → e = .adbTimeout ∨ e = .transportTimeout ∨ e = .transportError ∨
      e = .invalidCommand ∨ e = .invalidChecksum ∨ e = .pyValueError) := by
  obtain ⟨h1, h2, h3, h4, -, -⟩ := readPacket_time t R τ D w r w' h hrt htt hR hτ hc (by omega)
  refine ⟨?_, by omega, h3, h1, fun e he => by simpa [pktErrs] using h4 e he⟩
  intro hr; exact hang_not_mem_pktErrs (h4 _ hr)

/-- `_read_expected_packet_from_device(expected)`: a flood of packets with unexpected commands (or silence,
    end-of-stream, trickle) cannot keep it waiting: it never hangs and ends at most `R + 2 * (R + max D τ)`
    ticks after it started (the last packet read starts no later than the deadline); it fails only with the
    packet-level errors, and a normal return carries a packet whose command IS one of the expected ones. -/
theorem C11_expectPacket_bound (ex : List Cmd) (t : Txn) (R τ D : Int) (w : World) (r : Except Err Pkt) (w' : World)
    (h : expectPacket ex t w = (r, w')) (hrt : t.rt = some R) (htt : t.tt = some τ) (hR : 0 ≤ R) (hτ : 0 ≤ τ)
    (hc : w.CallCost D) (hf : R.toNat < w.fuel) :
    r ≠ .error .hang ∧ 0 ≤ w'.now - w.now ∧ w'.now - w.now ≤ R + 2 * (R + max D τ) ∧ w'.CallCost D ∧
    (∀ e, r = .error e → e = .adbTimeout ∨ e = .transportTimeout ∨ e = .transportError ∨
      e = .invalidCommand ∨ e = .invalidChecksum ∨ e = .pyValueError) ∧
    (∀ p, r = .ok p → p.cmd ∈ ex) := by
  obtain ⟨h1, h2, h3, h4, h5, -⟩ := expectPacket_time ex t R τ D w r w' h hrt htt hR hτ hc (by omega)
  refine ⟨?_, by omega, h3, h1, fun e he => by simpa [pktErrs] using h4 e he, fun p hp => by simpa using h5 p hp⟩
  intro hr; exact hang_not_mem_pktErrs (h4 _ hr)

/-- `_AdbIOManager.read(expected, adb_info, allow_zeros)` called with no lock held: silence, end-of-stream
    (empty reads), trickle, floods of packets for other streams and floods of unexpected commands all end
    within `R + 2 * (R + max D τ)` ticks — the pre-check in the store costs no time, every loop iteration
    reads at most one packet and is followed by the deadline test.  It never hangs provided the loop budget
    exceeds `read timeout + number of packets parked in the store` (the drain loop removes one parked packet per
    iteration; every packet parked during the wait costs at least one tick).  It fails only with the
    packet-level errors or the packet store's KeyError / queue.Empty, and a normal return carries a packet
    whose command is one of the expected ones (taken from the store or read from the device: by
    `C03_readPacket_exact` never fabricated).  The store grows by at most one packet per tick waited. -/
theorem C11_ioRead_bound (ex : List Cmd) (t : Txn) (az : Bool) (R τ D : Int) (w : World) (r : Except Err Pkt)
    (w' : World) (h : ioRead ex t az w = (r, w')) (hrt : t.rt = some R) (htt : t.tt = some τ)
    (hR : 0 ≤ R) (hτ : 0 ≤ τ) (hc : w.CallCost D) (hlk : w.locks = [])
    (hf : parkedCount w.store + R.toNat < w.fuel) :
    r ≠ .error .hang ∧ 0 ≤ w'.now - w.now ∧ w'.now - w.now ≤ R + 2 * (R + max D τ) ∧ w'.CallCost D ∧
    (∀ e, r = .error e → e = .adbTimeout ∨ e = .transportTimeout ∨ e = .transportError ∨
      e = .invalidCommand ∨ e = .invalidChecksum ∨ e = .pyValueError ∨ e = .pyKeyError ∨ e = .pyQueueEmpty) ∧
    (∀ p, r = .ok p → p.cmd ∈ ex) ∧
    (parkedCount w'.store : Int) ≤ parkedCount w.store + (w'.now - w.now) := by
  obtain ⟨h1, h2, h3, h4, h5, h6, -, -⟩ := ioRead_time ex t az R τ D w r w' h hrt htt hR hτ hc hlk (by omega)
  refine ⟨?_, by omega, h3, h1, fun e he => by simpa [ioReadErrs, pktErrs] using h4 e he,
    fun p hp => by simpa using h5 p hp, h6⟩
  intro hr; exact hang_not_mem_ioReadErrs (h4 _ hr)

/-- Summary of the possible failures of the wait loops when both timeouts are numbers and the loop budget
    exceeds the read timeout: only the documented exception kinds — never `hang`, never anything else. -/
theorem C11_wait_outcomes (t : Txn) (R τ D : Int) (w : World) (hrt : t.rt = some R) (htt : t.tt = some τ)
    (hR : 0 ≤ R) (hτ : 0 ≤ τ) (hc : w.CallCost D) (hf : R.toNat < w.fuel) :
    (∀ n e w', readBytes n t w = (.error e, w') → e = .adbTimeout ∨ e = .transportTimeout ∨ e = .transportError) ∧
    (∀ d e w', writeAll d t w = (.error e, w') → e = .adbTimeout ∨ e = .transportTimeout ∨ e = .transportError) ∧
    (∀ e w', readPacket t w = (.error e, w') → e = .adbTimeout ∨ e = .transportTimeout ∨ e = .transportError ∨
      e = .invalidCommand ∨ e = .invalidChecksum ∨ e = .pyValueError) ∧
    (∀ ex e w', expectPacket ex t w = (.error e, w') → e = .adbTimeout ∨ e = .transportTimeout ∨
      e = .transportError ∨ e = .invalidCommand ∨ e = .invalidChecksum ∨ e = .pyValueError) ∧
    (∀ ex az e w', w.locks = [] → parkedCount w.store + R.toNat < w.fuel → ioRead ex t az w = (.error e, w') →
      e = .adbTimeout ∨ e = .transportTimeout ∨ e = .transportError ∨ e = .invalidCommand ∨
      e = .invalidChecksum ∨ e = .pyValueError ∨ e = .pyKeyError ∨ e = .pyQueueEmpty) :=
  ⟨fun n e w' h => (C11_readBytes_bound n t R τ D w _ w' h hrt htt hR hτ hc hf).2.2.2.2 e rfl,
   fun d e w' h => (C11_writeAll_bound d t R τ D w _ w' h hrt htt hR hτ hc hf).2.2.2.2 e rfl,
   fun e w' h => (C11_readPacket_bound t R τ D w _ w' h hrt htt hR hτ hc hf).2.2.2.2 e rfl,
   fun ex e w' h => (C11_expectPacket_bound ex t R τ D w _ w' h hrt htt hR hτ hc hf).2.2.2.2.1 e rfl,
   fun ex az e w' hlk hs h => (C11_ioRead_bound ex t az R τ D w _ w' h hrt htt hR hτ hc hlk hs).2.2.2.2.1 e rfl⟩

/-- `_read_until_close` with a whole-command limit `timeout_s = T` (called with no lock held): the total test
    follows every yielded item, and every yielded item cost at least one tick (its OKAY was written), so the
    generator never hangs and ends at most one iteration — one `read` (`R + 2 * (R + max D τ)`) plus one
    OKAY/CLSE send (`R + max D τ`) — after the limit.  The loop budget must exceed
    `T + R + number of parked packets`.  Failures: the `read` errors or `struct.error` from packing OKAY/CLSE. -/
theorem C11_total_timeout (t : Txn) (R τ T D : Int) (w : World) (r : Except Err (List Bytes)) (w' : World)
    (h : readUntilClose t w = (r, w')) (hrt : t.rt = some R) (htt : t.tt = some τ) (htot : t.total = some T)
    (hR : 0 ≤ R) (hτ : 0 ≤ τ) (hT : 0 ≤ T) (hc : w.CallCost D) (hlk : w.locks = [])
    (hf : parkedCount w.store + T.toNat + R.toNat < w.fuel) :
    r ≠ .error .hang ∧ 0 ≤ w'.now - w.now ∧
    w'.now - w.now ≤ T + ((R + 2 * (R + max D τ)) + (R + max D τ)) ∧ w'.CallCost D ∧
    (∀ e, r = .error e → e = .adbTimeout ∨ e = .transportTimeout ∨ e = .transportError ∨
      e = .invalidCommand ∨ e = .invalidChecksum ∨ e = .pyValueError ∨ e = .pyKeyError ∨ e = .pyQueueEmpty ∨
      e = .pyStructError) := by
  obtain ⟨h1, h2, h3, h4⟩ := readUntilClose_time t R τ T D w r w' h hrt htt htot hR hτ hT hc hlk (by omega)
  refine ⟨?_, by omega, h3, h1, fun e he => by simpa [streamErrs, ioReadErrs, pktErrs] using h4 e he⟩
  intro hr; exact hang_not_mem_streamErrs (h4 _ hr)

/-! ### non-vacuity
  The example worlds `c11Silent`, `c11Trickle`, `c11Eof`, `c11Flood`, `c11Stream` and transactions `c11Txn`,
  `c11StreamTxn` are defined at the end of AdbProofs/Lemmas/TimeLemmas.lean. -/

/-- the hypotheses of the theorems hold in the example worlds -/
example : c11Silent.CallCost 1 ∧ c11Trickle.CallCost 600 ∧ c11Eof.CallCost 600 ∧ c11Flood.CallCost 600 ∧
    c11Stream.CallCost 300 := by
  refine ⟨?_, ?_, ?_, ?_, ?_⟩ <;>
  ( intro c hc
    first
      | simp only [c11Silent, Option.some.injEq] at hc
      | simp only [c11Trickle, Option.some.injEq] at hc
      | simp only [c11Eof, Option.some.injEq] at hc
      | simp only [c11Flood, Option.some.injEq] at hc
      | simp only [c11Stream, Option.some.injEq] at hc
    subst hc; decide )

example : c11Txn.rt = some 1024 ∧ c11Txn.tt = some 50 ∧ (1024 : Int).toNat < c11Silent.fuel ∧
    parkedCount c11Flood.store + (1024 : Int).toNat < c11Flood.fuel ∧ c11Flood.locks = [] ∧
    c11StreamTxn.total = some 1000 ∧ c11Stream.locks = [] ∧
    parkedCount c11Stream.store + (1000 : Int).toNat + (1000 : Int).toNat < c11Stream.fuel := by decide

/-- with `transport_timeout_s = None` the same silence blocks forever (`C11_bulkRead_blocking` is not vacuous),
    which is why the theorems require numeric timeouts -/
example : (bulkRead 24 none c11Silent).1 = .error .hang ∧
    (readBytes 24 { c11Txn with tt := none } c11Silent).1 = .error .hang := ⟨rfl, rfl⟩

/-- silence: `_read_bytes_from_device(24)` raises the transport's timeout error after exactly `τ = 50` ticks -/
example : (readBytes 24 c11Txn c11Silent).1 = .error .transportTimeout ∧
    (readBytes 24 c11Txn c11Silent).2.now = 50 := ⟨rfl, rfl⟩

/-- trickle (one byte per 600-tick read): AdbTimeoutError after two reads, 1200 ticks ≤ R + max D τ = 1624 -/
example : (readBytes 24 c11Txn c11Trickle).1 = .error .adbTimeout ∧
    (readBytes 24 c11Txn c11Trickle).2.now = 1200 := ⟨rfl, rfl⟩

/-- silence seen by `_AdbIOManager.read`: the transport's timeout error after 50 ticks -/
example : (ioRead [.OKAY] c11Txn false c11Silent).1 = .error .transportTimeout ∧
    (ioRead [.OKAY] c11Txn false c11Silent).2.now = 50 :=
  ⟨eq_error_of_c11ErrOf (by decide +kernel), by decide +kernel⟩

/-- end-of-stream (every read returns `b''` after 600 ticks): AdbTimeoutError after two empty reads -/
example : (ioRead [.OKAY] c11Txn false c11Eof).1 = .error .adbTimeout ∧
    (ioRead [.OKAY] c11Txn false c11Eof).2.now = 1200 :=
  ⟨eq_error_of_c11ErrOf (by decide +kernel), by decide +kernel⟩

/-- foreign-stream flood (WRTE packets for local id 9, 600 ticks each): AdbTimeoutError after two packets,
    both parked in the store; 1200 ticks ≤ R + 2 * (R + max D τ) -/
example : (ioRead [.OKAY] c11Txn false c11Flood).1 = .error .adbTimeout ∧
    (ioRead [.OKAY] c11Txn false c11Flood).2.now = 1200 ∧
    parkedCount (ioRead [.OKAY] c11Txn false c11Flood).2.store = 2 :=
  ⟨eq_error_of_c11ErrOf (by decide +kernel), by decide +kernel, by decide +kernel⟩

/-- unexpected-command flood seen by `_read_expected_packet_from_device`: AdbTimeoutError after two packets -/
example : (expectPacket [.CNXN] c11Txn c11Flood).1 = .error .adbTimeout ∧
    (expectPacket [.CNXN] c11Txn c11Flood).2.now = 1200 :=
  ⟨eq_error_of_c11ErrOf (by decide +kernel), by decide +kernel⟩

/-- the whole-command limit fires: WRTE packets for our stream keep coming (header + payload + OKAY = 900 ticks
    per item, limit 1000 ticks): two items are yielded, then AdbTimeoutError at 1800 ticks ≤ T + one iteration -/
example : (readUntilClose c11StreamTxn c11Stream).1 = .error .adbTimeout ∧
    (readUntilClose c11StreamTxn c11Stream).2.now = 1800 :=
  ⟨eq_error_of_c11ErrOf (by decide +kernel), by decide +kernel⟩

end Adb
