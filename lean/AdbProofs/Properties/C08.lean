import AdbProofs.Lemmas.SyncDevice
import AdbProofs.Lemmas.SyncExamples
/-
  C08 — pull.  For any device file content and any way the device splits it into sync DATA records
  (up to 64 KiB each) and those records into WRITE packets (boundaries anywhere, including inside
  an 8-byte sync header), pull writes exactly the file's bytes, in order, to the destination path
  or BytesIO, then closes the stream.  The progress callback, when given, sees byte counts summing
  to the file size and cannot alter or abort the transfer.

  Conventions.  The trace is stored most recent first; `evs` is the list of events a call added
  (`w'.trace = evs ++ w.trace`).  `Push.deliveredWrteData evs` is the FileSync byte stream handed
  over by those events: the payloads of the device's WRTE packets delivered to the caller,
  concatenated, oldest first — how the device cut the stream into packets is not visible in it,
  and every statement below is about this stream only.  `SR.parse fmt bs` is the pure reference
  parser (one record at the head of `bs`: `more` / `badId` / `record r rest`), `SR.parseRec` its
  `Option` form, `SR.Recs fmt bs rs rest` says `bs` is the records `rs` followed by `rest`,
  `SR.dataRec d` is the DATA record with payload `d`, `SR.pullStream chunks dd tail` is the
  device's encoding `DATA(chunk)… DONE(dd) tail`.  `World.sink` is the destination of the pull.
-/
namespace Adb
open Adb.SR

/-- Partition independence, the key law of `_filesync_read_buffered(size)`: on a normal return
    exactly `size` bytes are returned, and what was buffered followed by what the device's WRTE
    packets delivered meanwhile equals what is returned followed by what stays buffered.  No byte is
    lost, duplicated or reordered, wherever the WRTE boundaries fall; the send buffer is untouched. -/
theorem C08_read_buffered_conservation (size : Nat) (t : Txn) (fi fi' : FsInfo) (bs : Bytes) (w w' : World)
    (evs : List TEv) (h : fsReadBuffered size t fi w = (.ok (bs, fi'), w')) (hev : w'.trace = evs ++ w.trace) :
    bs.length = size ∧ fi.recvBuf ++ Push.deliveredWrteData evs = bs ++ fi'.recvBuf ∧
    fi'.sendBuf = fi.sendBuf ∧ fi'.fmt = fi.fmt ∧ fi'.maxdata = fi.maxdata := by
  obtain ⟨e, he, hp⟩ := fsReadBuffered_any h
  have : evs = e := Push.evs_unique (he ▸ hev)
  subst this
  exact hp

/-- `_filesync_read_buffered`, the exceptional outcomes (the `FsInfo` is not returned then): an
    exception is either the model's loop-budget verdict (after at least `w.fuel` delivered packets)
    or the exception of a `_read_until([WRTE])` call that was made while fewer than `size` bytes had
    been handed over (`e0` are the events before that call, `el` the events of the failing call). -/
theorem C08_read_buffered_error (size : Nat) (t : Txn) (fi : FsInfo) (e : Err) (w w' : World) (evs : List TEv)
    (h : fsReadBuffered size t fi w = (.error e, w')) (hev : w'.trace = evs ++ w.trace) :
    (e = .hang ∧ w.fuel ≤ (Push.delivered evs).length) ∨
    ∃ e0 el w1, evs = el ++ e0 ∧ w1.trace = e0 ++ w.trace ∧
      (fi.recvBuf ++ Push.deliveredWrteData e0).length < size ∧ readUntil [.WRTE] t w1 = (.error e, w') := by
  obtain ⟨e', he, hp⟩ := fsReadBuffered_any h
  have : evs = e' := Push.evs_unique (he ▸ hev)
  subst this
  exact hp

/-- `_filesync_read` returns exactly the next record of the reassembled stream: the receive buffer
    followed by everything the device's WRTE packets delivered during the call (including those that
    arrived while a pending request was being flushed) parses — by the reference parser — as the
    returned record followed by the new receive buffer; and its id is an expected one. -/
theorem C08_fsRead_parses (expected : List SyncId) (t : Txn) (fi fi' : FsInfo) (r : SyncRec) (w w' : World)
    (evs : List TEv) (h : fsRead expected t fi w = (.ok (r, fi'), w')) (hev : w'.trace = evs ++ w.trace) :
    parseRec fi.fmt (fi.recvBuf ++ Push.deliveredWrteData evs) = some (r, fi'.recvBuf) ∧ r.id ∈ expected ∧
    fi'.sendBuf = [] ∧ fi'.fmt = fi.fmt ∧ fi'.maxdata = fi.maxdata := by
  obtain ⟨hp, hid, hf, hm, hs⟩ := fsRead_ok_parse h hev
  exact ⟨parseRec_eq_some.2 hp, hid, hs, hf, hm⟩

/-- The reference parser inverts the device's encoding of a pull/push record (any id but STAT, any
    payload below 2^32 bytes), whatever follows it. -/
theorem C08_record_roundtrip (id : SyncId) (data rest : Bytes) (hid : id ≠ SyncId.STAT)
    (hd : data.length < 4294967296) :
    parseRec .pull (Push.syncRec id data.length data ++ rest) = some (⟨id, [], some data⟩, rest) :=
  parseRec_eq_some.2 (parse_syncRec (Or.inl rfl) id data rest hid hd)

/-- The reading of a stream that stops at its first DONE record is unique, and a parsed record does
    not depend on the bytes after it: the record sequence is a function of the byte stream alone. -/
theorem C08_reading_unique (fmt : SyncFmt) (bs r1 r2 : Bytes) (a b : List SyncRec) (d1 d2 : SyncRec)
    (h1 : Recs fmt bs (a ++ [d1]) r1) (h2 : Recs fmt bs (b ++ [d2]) r2)
    (ha : ∀ x ∈ a, x.id ≠ SyncId.DONE) (hb : ∀ x ∈ b, x.id ≠ SyncId.DONE)
    (hd1 : d1.id = SyncId.DONE) (hd2 : d2.id = SyncId.DONE) : a = b ∧ d1 = d2 ∧ r1 = r2 :=
  Recs.until_done_unique h1 h2 ha hb hd1 hd2

/-- The loop of `_pull`, normal return: the reassembled stream is DATA records followed by one DONE
    record; the destination received exactly the concatenation of the DATA payloads, in order, and
    nothing else; the callback (when given) was called exactly once per DATA record, in order, with
    `(device_path, len(data), total_bytes)`. -/
theorem C08_pull_exact (devPath : Bytes) (cb : CbMode) (total : Nat) (t : Txn) (fuel : Nat) (fi : FsInfo)
    (w w' : World) (evs : List TEv)
    (h : pullLoop devPath cb total t fuel fi w = (.ok (), w')) (hev : w'.trace = evs ++ w.trace)
    (hfmt : fi.fmt = .pull) :
    ∃ (datas : List Bytes) (done : SyncRec) (rest : Bytes),
      Recs .pull (fi.recvBuf ++ Push.deliveredWrteData evs) (datas.map dataRec ++ [done]) rest ∧
      done.id = SyncId.DONE ∧
      (∀ s, w.sink = some s → w'.sink = some (s ++ datas.flatten)) ∧
      Push.progressCalls evs = (if cb = CbMode.none then [] else datas.map fun d => (devPath, d.length, total)) :=
  pullLoop_ok h hev hfmt

/-- The same from the device's side: if the reassembled stream is the encoding of the chunks
    `chunks` (each below 2^32 bytes — the wire format cannot say more) followed by DONE, then the
    destination received exactly `chunks.flatten`, i.e. the file content, whatever the chunking. -/
theorem C08_pull_exact_wire (devPath : Bytes) (cb : CbMode) (total : Nat) (t : Txn) (fuel : Nat) (fi : FsInfo)
    (w w' : World) (evs : List TEv) (chunks : List Bytes) (dd tail s : Bytes)
    (h : pullLoop devPath cb total t fuel fi w = (.ok (), w')) (hev : w'.trace = evs ++ w.trace)
    (hfmt : fi.fmt = .pull) (hs : w.sink = some s)
    (hstream : fi.recvBuf ++ Push.deliveredWrteData evs = pullStream chunks dd tail)
    (hc : ∀ c ∈ chunks, c.length < 4294967296) (hdd : dd.length < 4294967296) :
    w'.sink = some (s ++ chunks.flatten) ∧
    Push.progressCalls evs = (if cb = CbMode.none then [] else chunks.map fun d => (devPath, d.length, total)) := by
  obtain ⟨datas, done, rest, hrecs, hdone, hsink, hprog⟩ := pullLoop_ok h hev hfmt
  rw [hstream] at hrecs
  obtain ⟨rfl, -, -⟩ := pull_wire hrecs hdone hc hdd
  exact ⟨hsink s hs, hprog⟩

/-- `pull` as a whole, normal return.  The events split into the part before the RECV request
    (`ePre`), the transfer (`eX`) and the close (`eCl`).  The FileSync stream of the transfer is
    DATA records followed by DONE; the destination — created empty — holds exactly the DATA payloads
    in order; the callback was called once per DATA record; the last thing sent is the CLSE of the
    stream and the device's CLSE was received. -/
theorem C08_pull_writes_file (devPath : Bytes) (cb : CbMode) (tt rt : Timeout) (w w' : World) (v : Val)
    (evs : List TEv) (h : devPull devPath cb tt rt w = (.ok v, w')) (hev : w'.trace = evs ++ w.trace)
    (hl : lockTransport ∉ w.locks) :
    ∃ (t : Txn) (w0 w1 : World) (ePre eX eCl : List TEv) (datas : List Bytes) (done : SyncRec) (rest : Bytes)
      (total : Nat) (c : Pkt),
      openStream (ascii "sync:") tt rt none w0 = (.ok t, w1) ∧
      evs = eCl ++ eX ++ ePre ∧
      Recs .pull (Push.deliveredWrteData eX) (datas.map dataRec ++ [done]) rest ∧ done.id = SyncId.DONE ∧
      w'.sink = some datas.flatten ∧
      Push.progressCalls evs = (if cb = CbMode.none then [] else datas.map fun d => (devPath, d.length, total)) ∧
      transmitted eCl = [clseMsg t] ∧ delivered eCl = [c] ∧ c.cmd = Cmd.CLSE ∧ v = Val.none ∧
      Push.deliveredWrteData eCl = [] ∧ (cb = CbMode.none → w.locks = [] → Push.deliveredWrteData ePre = []) :=
  devPull_exact h hev hl

/-- `pull` from the device's side (no callback, idle device): for ANY file content `chunks.flatten`,
    cut by the device into DATA records `chunks` in any way (each below 2^32 bytes — the wire format
    cannot announce more) and those records cut into WRTE packets in any way, if the WRTE payloads
    delivered during the call concatenate to the encoding `DATA(chunk)… DONE` then after a normal
    return the destination is exactly the content.  (With a callback the `stat` reply, which arrives
    on its own stream, precedes these bytes; `C08_pull_writes_file` and `C08_pull_exact_wire` cover
    that case per phase.) -/
theorem C08_pull_writes_file_wire (devPath : Bytes) (tt rt : Timeout) (w w' : World) (v : Val)
    (evs : List TEv) (chunks : List Bytes) (dd tail : Bytes)
    (h : devPull devPath .none tt rt w = (.ok v, w')) (hev : w'.trace = evs ++ w.trace)
    (hl : w.locks = [])
    (hc : ∀ c ∈ chunks, c.length < 4294967296) (hdd : dd.length < 4294967296)
    (hstream : Push.deliveredWrteData evs = pullStream chunks dd tail) :
    w'.sink = some chunks.flatten := by
  obtain ⟨datas, done, rest, hrecs, hdone, hsink⟩ := devPull_whole h hev hl
  rw [hstream] at hrecs
  obtain ⟨rfl, -, -⟩ := pull_wire hrecs hdone hc hdd
  exact hsink

/-- `_clse` runs on every path of `pull` (in the `except BaseException` handler when the transfer
    raised, after the transfer otherwise — formerly a `finally` clause): for EVERY outcome of `pull`,
    either a guard or `_open` raised (no stream was ever open), or a stream `t` was opened and the
    last message handed to `_send` by the call is the CLSE of that stream; on a normal return the
    device's CLSE was received in reply. -/
theorem C08_close_in_finally (devPath : Bytes) (cb : CbMode) (tt rt : Timeout) (w w' : World) (res : Except Err Val)
    (evs : List TEv) (h : devPull devPath cb tt rt w = (res, w')) (hev : w'.trace = evs ++ w.trace)
    (hl : lockTransport ∉ w.locks) :
    (∃ e, res = .error e ∧ runGuards (guardsFor "pull") (some devPath) w = (.error e, w')) ∨
    (∃ e w0, res = .error e ∧ openStream (ascii "sync:") tt rt none w0 = (.error e, w')) ∨
    (∃ (t : Txn) (w0 w1 : World) (eIn eCl : List TEv),
      openStream (ascii "sync:") tt rt none w0 = (.ok t, w1) ∧ evs = eCl ++ eIn ∧
      transmitted eCl = [clseMsg t] ∧ transmitted evs = transmitted eIn ++ [clseMsg t] ∧
      (∀ v, res = .ok v → ∃ c, delivered eCl = [c] ∧ c.cmd = Cmd.CLSE)) :=
  devPull_closes h hev hl

/-- The byte counts the callback sees sum to the number of bytes written: with a callback, the
    calls recorded during the loop of `_pull` are `(device_path, len(data), total)` per DATA record
    and their counts add up to the growth of the destination; without a callback there is no call. -/
theorem C08_progress_sum (devPath : Bytes) (cb : CbMode) (total : Nat) (t : Txn) (fuel : Nat) (fi : FsInfo)
    (w w' : World) (evs : List TEv) (s : Bytes)
    (h : pullLoop devPath cb total t fuel fi w = (.ok (), w')) (hev : w'.trace = evs ++ w.trace)
    (hfmt : fi.fmt = .pull) (hs : w.sink = some s) :
    ∃ s', w'.sink = some (s ++ s') ∧
      (cb = CbMode.none → Push.progressCalls evs = []) ∧
      (cb ≠ CbMode.none → ((Push.progressCalls evs).map fun c => c.2.1).sum = s'.length ∧
        ∀ c ∈ Push.progressCalls evs, c.1 = devPath ∧ c.2.2 = total) := by
  obtain ⟨datas, done, rest, -, -, hsink, hprog⟩ := pullLoop_ok h hev hfmt
  refine ⟨datas.flatten, hsink s hs, ?_, ?_⟩
  · intro hcb; rw [hprog, if_pos hcb]
  · intro hcb
    rw [hprog, if_neg hcb]
    refine ⟨?_, ?_⟩
    · rw [List.map_map, List.length_flatten]; rfl
    · intro c hc
      simp only [List.mem_map] at hc
      obtain ⟨d, -, rfl⟩ := hc
      exact ⟨rfl, rfl⟩

/-- The callback cannot alter or abort the transfer: calling it — also when it raises — returns
    normally and changes nothing in the world but the trace, where the call is recorded. -/
theorem C08_callback_cannot_abort (cb : CbMode) (path : Bytes) (n total : Nat) (w : World) :
    callProgress cb path n total w =
      (.ok (), { w with trace := (if cb = CbMode.none then [] else [TEv.cbProgress path n total]) ++ w.trace }) :=
  Push.callProgress_run cb path n total w

/-! ### non-vacuity -/

/-- the reference parser on a DATA record whose bytes arrive header/data split: incomplete, then the record -/
example : parse .pull ((Push.syncRec .DATA 3 [9, 8, 7]).take 5) = .more ∧
    parse .pull ((Push.syncRec .DATA 3 [9, 8, 7]).take 10) = .more ∧
    parseRec .pull (Push.syncRec .DATA 3 [9, 8, 7] ++ [1]) = some (⟨.DATA, [], some [9, 8, 7]⟩, [1]) := by
  decide +kernel

/-- `_filesync_read_buffered(8)` with one byte buffered and ten bytes arriving in two WRTE packets:
    returns the first 8 bytes of the reassembled stream and keeps the other 3; with too little data
    and a silent device it raises the transport's timeout (an exception of `_read_until`) -/
example : ((fsReadBuffered 8 sxT { fmt := .pull, maxdata := 4096, recvBuf := [9] } (wRec [1, 2, 3, 4, 5, 6, 7, 8, 9, 10] 4)).1.toOption.map
      fun x => (x.1, x.2.recvBuf)) = some ([9, 1, 2, 3, 4, 5, 6, 7], [8, 9, 10]) ∧
    errOf (fsReadBuffered 8 sxT { fmt := .pull, maxdata := 4096 } (sxWorld (wrteFor 7 1 [1, 2, 3]))).1
      = some .transportTimeout := by
  decide +kernel

/-- a reading of an encoded stream (the hypotheses of `C08_reading_unique` are satisfiable) -/
example : Recs .pull (pullStream [[1], [2, 3]] [] [7]) ([[1], [2, 3]].map dataRec ++ [⟨.DONE, [], some []⟩]) [7] :=
  Recs_pullStream _ _ _ (by decide) (by decide)

/-- `_filesync_read` on a DATA record cut inside its 8-byte header returns that record -/
example : ((fsRead [.DATA, .DONE] sxT { fmt := .pull, maxdata := 4096 } (wRec (Push.syncRec .DATA 3 [9, 8, 7]) 5)).1.toOption.map (·.1))
    = some ⟨.DATA, [], some [9, 8, 7]⟩ := by decide +kernel

/-- a whole `pull` of the content [1,2,3,4,5] sent as DATA[1,2,3] DATA[4,5] DONE, cut after 3 bytes
    (inside the first header), then inside the first payload: normal return, destination = content,
    last message CLSE -/
example : (devPull sxPath .none (some 10) (some 10) wPull).1.toOption = some Val.none ∧
    (devPull sxPath .none (some 10) (some 10) wPull).2.sink = some [1, 2, 3, 4, 5] ∧
    (transmitted (devPull sxPath .none (some 10) (some 10) wPull).2.trace).getLast? = some ⟨.CLSE, 1, 7, []⟩ ∧
    lockTransport ∉ wPull.locks := by
  decide +kernel

/-- the hypotheses of `C08_pull_writes_file_wire` hold in that world: idle device, and the delivered
    WRTE payloads concatenate to the encoding of the chunks [1,2,3], [4,5] followed by DONE -/
example : wPull.locks = [] ∧
    Push.deliveredWrteData (devPull sxPath .none (some 10) (some 10) wPull).2.trace = pullStream [[1, 2, 3], [4, 5]] [] [] := by
  decide +kernel

/-- with a RAISING callback (so `stat` runs first on its own stream): same destination, two calls recorded -/
example : (devPull sxPath .raise (some 10) (some 10) wPullCb).1.toOption = some Val.none ∧
    (devPull sxPath .raise (some 10) (some 10) wPullCb).2.sink = some [1, 2, 3, 4, 5] ∧
    Push.progressCalls (devPull sxPath .raise (some 10) (some 10) wPullCb).2.trace
      = [(sxPath, 3, 5), (sxPath, 2, 5)] := by
  decide +kernel

/-- a pull that fails after the first DATA record still sends CLSE last (the close runs on every path) -/
example : errOf (devPull sxPath .none (some 10) (some 10) wPullFail).1 = some (.adbCommandFailure [110, 111]) ∧
    (transmitted (devPull sxPath .none (some 10) (some 10) wPullFail).2.trace).getLast? = some ⟨.CLSE, 1, 7, []⟩ := by
  decide +kernel

end Adb
