import AdbProofs.Lemmas.FrameOps2
/-
  C12 — any transport failure leaves the device object recoverable.
  The world quantified over contains arbitrary fault scripts (timeouts, resets, end-of-stream at any
  inbound or outbound offset), so "for every world" is "for every failure at every point".
-/
namespace Adb

/-- `connect()`: frame properties except `available`/`maxdata` (which it sets). -/
theorem devConnect_locks (keys : List Nat) (tt authT rt : Timeout) (cb : Bool) (w : World) :
    (devConnect keys tt authT rt cb w).2.locks = w.locks := by
  unfold devConnect
  rw [bind_run]
  simp only [getTT]
  rw [bind_run]
  cases hm : Txn.make none none (if tt.isSome = true then tt else w.defaultTT) rt none with
  | error e => simp [hm]
  | ok t =>
    simp only [liftExcept_run, hm, bind_run, M.modify_run, M.get_run]
    have h := Fr_ioConnect w.banner keys authT cb t { w with available := false }
    split
    · next md w' hc =>
      rw [hc] at h
      simpa using h.locks
    · next e w' hc =>
      rw [hc] at h
      simpa using h.locks

theorem devClose_locks (w : World) : (devClose w).2.locks = w.locks := by
  unfold devClose
  simp only [bind_run, M.modify_run]
  have h := Fr_ioClose { w with available := false }
  split
  · next u w' hc =>
    rw [hc] at h
    simpa using h.locks
  · next e w' hc =>
    rw [hc] at h
    simpa using h.locks

/-- No internal lock is left held: whatever happens during ANY public operation — normal return or
    any exception, under any transport behaviour — the set of held locks afterwards is what it was
    before; in particular an idle device (`locks = []`) is idle again. -/
theorem C12_locks_released (op : ApiOp) (w : World) : (op.run w).2.locks = w.locks := by
  cases op with
  | connect keys tt authT rt cb => exact devConnect_locks keys tt authT rt cb w
  | close => exact devClose_locks w
  | shell cmd tt rt total dec => exact (Fr_devShellLike _ _ cmd tt rt total dec w).locks
  | execOut cmd tt rt total dec => exact (Fr_devShellLike _ _ cmd tt rt total dec w).locks
  | root tt rt total => exact (Fr_devRoot tt rt total w).locks
  | reboot fb tt rt total => exact (Fr_devReboot fb tt rt total w).locks
  | streamingShell cmd tt rt dec => exact (Fr_devStreamingShell cmd tt rt dec w).locks
  | list p tt rt => exact (Fr_devList p tt rt w).locks
  | stat p tt rt => exact (Fr_devStat p tt rt w).locks
  | pull p cb tt rt => exact (Fr_devPull p cb tt rt w).locks
  | push src p mode mtime cb tt rt => exact (Fr_devPush src p mode mtime cb tt rt w).locks

/-- …and over whole histories of calls (each possibly failing). -/
theorem C12_locks_released_history (ops : List ApiOp) (w : World) : (runHistory ops w).2.locks = w.locks := by
  induction ops generalizing w with
  | nil => rfl
  | cons op ops ih =>
    simp only [runHistory]
    rw [ih, C12_locks_released]

/-- `close()` always completes on an idle device, whatever state the broken session left behind:
    it returns normally, the device is unavailable, the packet store is empty, the transport is
    closed and no lock is held. -/
theorem C12_close_total (w : World) (h : w.locks = []) :
    ∃ w', devClose w = (.ok .none, w') ∧ w'.available = false ∧ w'.store = [] ∧ w'.cur = none ∧ w'.locks = [] := by
  unfold devClose ioClose
  simp only [bind_run, M.modify_run, withLock_run, h]
  simp [lockTransport, lockStore, tClose, storeClearAll, bind_run, withLock_run]
  cases w.cur <;> simp

/-- A failed or finished operation never leaves bytes of its own in the object besides the packet
    store, and `connect()` starts by closing the transport and emptying the store: after ANY
    `connect()` that got as far as opening the transport, nothing parked by the old session remains. -/
theorem C12_connect_clears_store (banner : Bytes) (keys : List Nat) (authT : Timeout) (cb : Bool) (t : Txn) (w : World)
    (h : w.locks = []) :
    ∃ w1, (tClose >>= fun _ => withLock lockStore storeClearAll) { w with locks := [lockTransport] } = (.ok (), w1)
      ∧ w1.store = [] ∧ w1.cur = none := by
  simp [bind_run, tClose, withLock_run, storeClearAll, lockStore, lockTransport]
  cases w.cur <;> simp

/-- Non-vacuity: a world with a fault script and a parked packet. -/
example : ∃ w : World, w.locks = [] ∧ w.store ≠ [] ∧ (devClose w).2.store = [] :=
  ⟨{ store := Store.empty.put 1 2 .WRTE [1] }, rfl, by decide, by decide⟩

end Adb
