import AdbModel
import Driver.Util
import Driver.Session
import Driver.Conc
import Driver.Keys
import Driver.Tcp
import Driver.Usb
import Driver.Spec
import Driver.Monitor
/-
  Model driver: one request per line on stdin, one reply line per request on stdout.
  The Python harness sends the same operations to the real implementation and diffs.
-/
open Adb Drv

structure DState where
  store : Store := []
  sess : Sess := {}
  conc : Adb.Conc.Sys := { wire := [], readers := [] }
  usb : UsbSt := {}

def showQItems (q : List QItem) : String :=
  "[" ++ ",".intercalate (q.map (fun (c, d) => c.name ++ ":" ++ toHex d)) ++ "]"

def dumpStore (s : Store) : String :=
  "{" ++ ";".intercalate (s.map (fun (k1, inner) =>
      toString k1 ++ "={" ++ ";".intercalate (inner.map (fun (k0, q) => toString k0 ++ "=" ++ showQItems q)) ++ "}")) ++ "}"

def showStoreErr : StoreErr → String
  | .typeError => "TypeError" | .keyError => "KeyError" | .queueEmpty => "QueueEmpty"

def showKey : Option (Nat × Nat) → String
  | none => "none"
  | some (a, b) => s!"ok {a} {b}"

def stepCodec (toks : List String) : String :=
  match toks with
  | ["pack", c, a0, a1, hex] =>
    match Cmd.ofName? c, a0.toNat?, a1.toNat?, fromHex hex with
    | some c, some a0, some a1, some d =>
      let m : Msg := ⟨c, a0, a1, d⟩
      match m.pack? with
      | some h => s!"ok {toHex h} sum={checksum d} magic={magicOf c.wire} wire={c.wire}"
      | none => "err StructError"
    | _, _, _, _ => "bad-op"
  | ["unpack", hex] =>
    match fromHex hex with
    | some bs => match unpack bs with
      | some h => s!"ok {h.cmd} {h.arg0} {h.arg1} {h.len} {h.sum}"
      | none => "err ValueError"
    | none => "bad-op"
  | ["checksum", hex] =>
    match fromHex hex with
    | some bs => s!"ok {checksum bs}"
    | none => "bad-op"
  | ["parse", hex] =>
    match fromHex hex with
    | some bs =>
      let (ps, rest) := parseStrict bs
      s!"ok n={ps.length} rest={rest.length} " ++ " ".intercalate (ps.map (fun p => s!"{p.cmd.name}:{p.arg0}:{p.arg1}:{p.data.length}"))
    | none => "bad-op"
  | _ => "bad-op"

def stepStore (st : DState) (toks : List String) : DState × String :=
  match toks with
  | ["new"] => ({ st with store := [] }, "ok")
  | ["put", a0, a1, c, hex] =>
    match a0.toNat?, a1.toNat?, Cmd.ofName? c, fromHex hex with
    | some a0, some a1, some c, some d => ({ st with store := st.store.put a0 a1 c d }, "ok")
    | _, _, _, _ => (st, "bad-op")
  | ["get", a0, a1] =>
    match optNat a0, optNat a1 with
    | some a0, some a1 =>
      match st.store.get a0 a1 with
      | .ok ((c, x, y, d), s') => ({ st with store := s' }, s!"ok {c.name} {x} {y} {toHex d}")
      | .error e => (st, "err " ++ showStoreErr e)
    | _, _ => (st, "bad-op")
  | ["find", a0, a1] =>
    match optNat a0, optNat a1 with
    | some a0, some a1 => (st, showKey (st.store.find a0 a1))
    | _, _ => (st, "bad-op")
  | ["findz", a0, a1] =>
    match optNat a0, optNat a1 with
    | some a0, some a1 => (st, showKey (st.store.findAllowZeros a0 a1))
    | _, _ => (st, "bad-op")
  | ["clear", a0, a1] =>
    match a0.toNat?, a1.toNat? with
    | some a0, some a1 => ({ st with store := st.store.clear a0 a1 }, "ok")
    | _, _ => (st, "bad-op")
  | ["clearall"] => ({ st with store := [] }, "ok")
  | ["len"] => (st, s!"ok {st.store.len}")
  | ["contains", a0, a1] =>
    match optNat a0, optNat a1 with
    | some a0, some a1 => (st, s!"ok {st.store.contains a0 a1}")
    | _, _ => (st, "bad-op")
  | ["dump"] => (st, dumpStore st.store)
  | ["allowed", z, a0, a1] =>
    match optNat a0, optNat a1 with
    | some a0, some a1 =>
      let ks := st.store.allowed (z == "z") a0 a1
      (st, "ok " ++ " ".intercalate (ks.map (fun (a, b) => s!"{a}:{b}")))
    | _, _ => (st, "bad-op")
  | ["pending"] =>
      (st, "ok " ++ " ".intercalate (st.store.pendingKeys.map (fun (a, b) => s!"{a}:{b}")))
  | _ => (st, "bad-op")

def step (st : DState) (line : String) : DState × String :=
  match tokens line with
  | "codec" :: rest => (st, stepCodec rest)
  | "store" :: rest => stepStore st rest
  | "spec" :: rest => (st, stepSpec rest)
  | "monitor" :: rest => (st, stepMonitor rest)
  | "usb" :: rest => let (u', out) := stepUsb st.usb rest; ({ st with usb := u' }, out)
  | "tcp" :: rest => (st, stepTcp rest)
  | "keys" :: rest => (st, stepKeys rest)
  | "conc" :: rest => let (c', out) := stepConc st.conc rest; ({ st with conc := c' }, out)
  | "sess" :: rest => let (s', out) := stepSess st.sess rest; ({ st with sess := s' }, out)
  | _ => (st, "bad-op")

partial def loop (hin hout : IO.FS.Stream) (st : DState) : IO Unit := do
  let line ← hin.getLine
  if line.isEmpty then return ()
  let line := line.trimAsciiEnd.toString
  let (st', out) := step st line
  hout.putStrLn out
  hout.flush
  loop hin hout st'

def main : IO Unit := do
  let hin ← IO.getStdin
  let hout ← IO.getStdout
  loop hin hout {}
  hout.flush
