import AdbModel
/- Line-protocol helpers: hex, integers, tokens. -/
namespace Drv
open Adb

def hexDigit (n : Nat) : Char :=
  if n < 10 then Char.ofNat (48 + n) else Char.ofNat (87 + n)

def toHex (bs : Bytes) : String :=
  if bs.isEmpty then "-" else
  String.ofList (bs.foldr (fun b acc => hexDigit (b.toNat / 16) :: hexDigit (b.toNat % 16) :: acc) [])

def hexVal (c : Char) : Option Nat :=
  if '0' ≤ c ∧ c ≤ '9' then some (c.toNat - 48)
  else if 'a' ≤ c ∧ c ≤ 'f' then some (c.toNat - 87)
  else if 'A' ≤ c ∧ c ≤ 'F' then some (c.toNat - 55)
  else none

partial def fromHexAux : List Char → Array UInt8 → Option (Array UInt8)
  | [], acc => some acc
  | a :: b :: rest, acc =>
    match hexVal a, hexVal b with
    | some x, some y => fromHexAux rest (acc.push (UInt8.ofNat (16 * x + y)))
    | _, _ => none
  | _, _ => none

/-- "-" is the empty byte string -/
def fromHex (s : String) : Option Bytes :=
  if s == "-" then some [] else (fromHexAux s.toList #[]).map (·.toList)

/-- "N" is Python `None` -/
def optNat (s : String) : Option (Option Nat) :=
  if s == "N" then some none else s.toNat?.map some

def showOptNat : Option Nat → String
  | none => "N"
  | some n => toString n

def tokens (line : String) : List String :=
  (line.splitOn " ").filter (· ≠ "")

/-- key=value arguments -/
def kv (toks : List String) (key : String) : Option String :=
  toks.findSome? (fun t => if t.startsWith (key ++ "=") then some ((t.drop (key.length + 1)).toString) else none)

end Drv
