import AdbModel
import AdbModel.Usb
import Driver.Util
/-
  Line protocol for the USB transport model (dispatch word `usb`):
    usb new eps=<a,b,..|-> iface=<n> win=<0|1> dms=<N|ms> script=<e,e,..|->
        script entries:  o:<hex|->:<n>   success (payload, count/flag)
                         z:<count>:<byte hex>:<n>   success with `count` copies of one byte as payload
                         e:<kind>        USBError of that kind (io, timeout, notFound, ...)
    usb connect | usb read <n> <N|ms> | usb write <hex|-> <N|ms> | usb close | usb tms <N|ms>
  Every reply: `<outcome> calls=[...] st=h:<id|N>,i:<n|N>,r:<0x..|N>,w:<0x..|N>,d:<ms>` where `calls` are the backend calls
  made by this operation.
-/
namespace Drv
open Adb

structure UsbSt where
  w : Usb.World := Usb.World.new { iface := 0, eps := [] } none []

def usbHex2 (n : Nat) : String :=
  "0x" ++ String.ofList [hexDigit (n / 16 % 16), hexDigit (n % 16)]

def usbShowOptHex : Option Nat → String
  | none => "N"
  | some a => usbHex2 a

def usbErrKindOfName? : String → Option Usb.ErrKind
  | "io" => some .io | "invalidParam" => some .invalidParam | "access" => some .access | "noDevice" => some .noDevice
  | "notFound" => some .notFound | "busy" => some .busy | "timeout" => some .timeout | "overflow" => some .overflow
  | "pipe" => some .pipe | "interrupted" => some .interrupted | "noMem" => some .noMem | "notSupported" => some .notSupported
  | "other" => some .other | _ => none

def usbErrKindName : Usb.ErrKind → String
  | .io => "io" | .invalidParam => "invalidParam" | .access => "access" | .noDevice => "noDevice" | .notFound => "notFound"
  | .busy => "busy" | .timeout => "timeout" | .overflow => "overflow" | .pipe => "pipe" | .interrupted => "interrupted"
  | .noMem => "noMem" | .notSupported => "notSupported" | .other => "other"

def usbShowCall : Usb.Call → String
  | .open => "open"
  | .kda h i => s!"h{h}.kda:{i}"
  | .detach h i => s!"h{h}.detach:{i}"
  | .claim h i => s!"h{h}.claim:{i}"
  | .release h i => s!"h{h}.release:{showOptNat i}"
  | .bulkRead h ep n ms => s!"h{h}.bulkRead:{usbShowOptHex ep}:{n}:{ms}"
  | .bulkWrite h ep d ms => s!"h{h}.bulkWrite:{usbShowOptHex ep}:{toHex d}:{ms}"
  | .hclose h => s!"h{h}.close"
  | .serial => "serial"

def usbShowErr : Usb.Err → String
  | .usbReadFailed => "UsbReadFailedError"
  | .usbWriteFailed => "UsbWriteFailedError"
  | .assertion => "AssertionError"
  | .usb k => "USBError:" ++ usbErrKindName k

def usbShowSt (s : Usb.St) : String :=
  s!"st=h:{showOptNat (s.handle.map (·.id))},i:{showOptNat s.iface},r:{usbShowOptHex s.readEp},w:{usbShowOptHex s.writeEp},d:{s.defaultMs}"

def usbParseRes (s : String) : Option Usb.Res :=
  match s.splitOn ":" with
  | ["o", hex, n] => do
      let bs ← fromHex hex
      let n ← n.toNat?
      pure (.ok bs n)
  | ["z", cnt, b, n] => do
      let cnt ← cnt.toNat?
      let bs ← fromHex b
      let n ← n.toNat?
      match bs with
      | [x] => pure (.ok (List.replicate cnt x) n)
      | _ => none
  | ["e", k] => (usbErrKindOfName? k).map .err
  | _ => none

def usbParseList {α : Type} (f : String → Option α) (s : String) : Option (List α) :=
  if s == "-" then some [] else (s.splitOn ",").mapM f

/-- reply for one operation: outcome, calls made by it, resulting attributes -/
def usbReply (before after : Usb.World) (outcome : String) : String :=
  let calls := after.be.log.drop before.be.log.length
  outcome ++ " calls=[" ++ ",".intercalate (calls.map usbShowCall) ++ "] " ++ usbShowSt after.st

def stepUsb (st : UsbSt) (toks : List String) : UsbSt × String :=
  match toks with
  | "new" :: rest =>
    match (kv rest "eps").bind (usbParseList String.toNat?), (kv rest "iface").bind String.toNat?, kv rest "win",
          (kv rest "dms").bind optNat, (kv rest "script").bind (usbParseList usbParseRes) with
    | some eps, some iface, some win, some dms, some script =>
      ({ w := Usb.World.new { iface := iface, eps := eps, windows := win == "1" } dms script }, "ok")
    | _, _, _, _, _ => (st, "bad-op")
  | ["connect"] =>
    let (r, w') := Usb.connect st.w
    let o := match (r : Usb.Out Unit) with | .ok _ => "ok" | .err e => "err " ++ usbShowErr e
    ({ w := w' }, usbReply st.w w' o)
  | ["read", n, t] =>
    match n.toNat?, optNat t with
    | some n, some t =>
      let (r, w') := Usb.bulkRead st.w n t
      let o := match (r : Usb.Out Bytes) with | .ok bs => "ok " ++ toHex bs | .err e => "err " ++ usbShowErr e
      ({ w := w' }, usbReply st.w w' o)
    | _, _ => (st, "bad-op")
  | ["write", hex, t] =>
    match fromHex hex, optNat t with
    | some d, some t =>
      let (r, w') := Usb.bulkWrite st.w d t
      let o := match (r : Usb.Out Nat) with | .ok k => s!"ok {k}" | .err e => "err " ++ usbShowErr e
      ({ w := w' }, usbReply st.w w' o)
    | _, _ => (st, "bad-op")
  | ["close"] =>
    let w' := Usb.close st.w
    ({ w := w' }, usbReply st.w w' "ok")
  | ["tms", t] =>
    match optNat t with
    | some t => (st, s!"ok {Usb.timeoutMs st.w.st t}")
    | none => (st, "bad-op")
  | _ => (st, "bad-op")

end Drv
