import AdbModel
import Driver.Util
/- Line protocol for the interleaving model: `conc new …`, `conc step pre|iter i`, `conc run p0,i1,…`, `conc state`. -/
namespace Drv
open Adb Adb.Conc

def parsePkt (s : String) : Option Pkt :=
  match s.splitOn ":" with
  | [c, a0, a1, hex] =>
    match Cmd.ofName? c, a0.toNat?, a1.toNat?, fromHex hex with
    | some c, some a0, some a1, some d => some ⟨c, a0, a1, d⟩
    | _, _, _, _ => none
  | _ => none

def showPktC (p : Pkt) : String := s!"{p.cmd.name}:{p.arg0}:{p.arg1}:{toHex p.data}"

def parseChoice (s : String) : Option Choice :=
  if s.startsWith "p" then (s.drop 1).toString.toNat?.map Choice.pre
  else if s.startsWith "i" then (s.drop 1).toString.toNat?.map Choice.iter
  else none

def showSys (sys : Sys) : String :=
  let rs := sys.readers.map fun r =>
    s!"lid={r.lid} done={if r.done then 1 else 0} inloop={if r.inLoop then 1 else 0} given=[{",".intercalate (r.given.map showPktC)}] dropped=[{",".intercalate (r.dropped.map showPktC)}]"
  s!"wire={sys.wire.length} lost=[{",".intercalate (sys.lost.map showPktC)}] storelen={sys.store.len} " ++ " | ".intercalate rs

def stepConc (sys : Sys) (toks : List String) : Sys × String :=
  match toks with
  | "new" :: r =>
    let wire := (((kv r "wire").getD "").splitOn ",").filterMap parsePkt
    let readers := (((kv r "readers").getD "").splitOn ",").filterMap fun s =>
      match s.splitOn ":" with
      | [l, rr] => match l.toNat?, rr.toNat? with
        | some l, some rr => some ({ lid := l, rid := rr } : Reader)
        | _, _ => none
      | _ => none
    ({ wire := wire, readers := readers }, "ok")
  | ["run", sched] =>
    let cs := (sched.splitOn ",").filterMap parseChoice
    let sys' := run sys cs
    (sys', showSys sys')
  | ["state"] => (sys, showSys sys)
  | _ => (sys, "bad-op")

end Drv
