import AdbModel
import Driver.Util
/- Session part of the line protocol: scenario set-up lines and `op` lines run on the World model. -/
namespace Drv
open Adb

def parseTimeout (s : String) : Option Timeout :=
  if s == "N" then some none
  else if s.startsWith "-" then (s.drop 1).toString.toNat?.map (fun n => some (-(Int.ofNat n)))
  else s.toNat?.map (fun n => some (Int.ofNat n))

def parseNatList (s : String) : List Nat :=
  if s == "" || s == "-" then [] else (s.splitOn ",").filterMap (·.toNat?)

def parseFault (s : String) : Option Fault :=
  match s.splitOn ":" with
  | [d, off, k] =>
    match off.toNat?, (match k with | "timeout" => some FaultKind.timeout | "reset" => some .reset | "eof" => some .eof | _ => none) with
    | some o, some kind => some ⟨d == "in", o, kind⟩
    | _, _ => none
  | _ => none

def showErr : Err → String
  | .adbTimeout => "AdbTimeoutError" | .transportTimeout => "TransportTimeout" | .transportError => "TransportError"
  | .invalidChecksum => "InvalidChecksumError" | .invalidCommand => "InvalidCommandError"
  | .invalidResponse => "InvalidResponseError" | .deviceAuth => "DeviceAuthError"
  | .adbConnection => "AdbConnectionError" | .devicePathInvalid => "DevicePathInvalidError"
  | .pushFailed m => "PushFailedError:" ++ toHex m
  | .adbCommandFailure m => "AdbCommandFailureException:" ++ toHex (Utf8.encode (Utf8.decodeBS m))
  | .pyTypeError => "TypeError" | .pyKeyError => "KeyError" | .pyStructError => "StructError"
  | .pyValueError => "ValueError" | .pyQueueEmpty => "QueueEmpty" | .localFileError => "LocalFileError"
  | .hang => "Hang"

def showItem : Item → String
  | .bytes b => "bytes:" ++ toHex b
  | .str cps => "str:" ++ toHex (Utf8.encode cps)

def showVal : Val → String
  | .none => "none"
  | .bool b => if b then "bool:1" else "bool:0"
  | .bytes b => "bytes:" ++ toHex b
  | .str cps => "str:" ++ toHex (Utf8.encode cps)
  | .items xs => "items:[" ++ ",".intercalate (xs.map showItem) ++ "]"
  | .listing es => "listing:[" ++ ",".intercalate (es.map fun (n, m, s, t) => s!"{toHex n}:{m}:{s}:{t}") ++ "]"
  | .stat m s t => s!"stat:{m}:{s}:{t}"

def showEv : TEv → Option String
  | .yielded d => some ("yield:" ++ toHex d)
  | .cbAuth => some "cbauth"
  | .cbProgress p n t => some s!"cb:{toHex p}:{n}:{t}"
  | .tclose => some "tclose"
  | .tconnect => some "tconnect"
  | _ => none

def showPkt (p : Pkt) : String := s!"{p.cmd.name}:{p.arg0}:{p.arg1}:{toHex p.data}"

def showEvFull : TEv → String
  | .tx m => "tx=" ++ showPkt ⟨m.cmd, m.arg0, m.arg1, m.data⟩
  | .deliver p => "deliver=" ++ showPkt p
  | .park p => "park=" ++ showPkt p
  | .drop p => "drop=" ++ showPkt p
  | .lost p => "lost=" ++ showPkt p
  | .skip p => "skip=" ++ showPkt p
  | .unstore p => "unstore=" ++ showPkt p
  | .req n r => s!"req={n}/{r}"
  | e => (showEv e).getD "?"

/-- canonical (order-independent) rendering of the packet store: pairs sorted, queues in FIFO order, empty queues included -/
def showStoreSorted (st : Store) : String :=
  let flat : List (Nat × Nat × List QItem) := st.flatMap fun (a1, inner) => inner.map fun (a0, q) => (a1, a0, q)
  let sorted := flat.toArray.qsort (fun a b => a.1 < b.1 || (a.1 == b.1 && a.2.1 < b.2.1)) |>.toList
  "{" ++ ";".intercalate (sorted.map fun (a1, a0, q) => s!"{a0}/{a1}=[" ++ ",".intercalate (q.map fun (c, d) => c.name ++ ":" ++ toHex d) ++ "]") ++ "}"

def totalPeer (w : World) : Bytes := (w.past.reverse).flatten ++ w.peerGot

structure Sess where
  w : World := {}
  detail : Bool := false
  building : List Conn := []     -- connections being set up: most recent first, each with its segs most recent first

/-- move the connections collected by `conn`/`seg` lines into the world (in order) -/
def Sess.finalize (s : Sess) : Sess :=
  if s.building.isEmpty then s else
  let cs := s.building.reverse.map fun c => { c with segs := c.segs.reverse }
  { s with w := { s.w with conns := s.w.conns ++ cs }, building := [] }

def parseCb (s : String) : CbMode :=
  if s == "count" then .count else if s == "raise" || s == "raisebase" then .raise else .none

def parseSrc (s : String) : Option LocalRef :=
  match s.splitOn ":" with
  | ["bytesio", n] => n.toNat?.map .bytesio
  | ["file", n] => n.toNat?.map .file
  | ["dir", n] => n.toNat?.map .dir
  | _ => none

def getT (toks : List String) (k : String) : Timeout :=
  match (kv toks k).bind parseTimeout with
  | some t => t
  | none => none

def getHex (toks : List String) (k : String) : Bytes := ((kv toks k).bind fromHex).getD []
def getNat (toks : List String) (k : String) : Nat := ((kv toks k).bind (·.toNat?)).getD 0
def getFlag (toks : List String) (k : String) : Bool := (kv toks k) == some "1"

def buildOp (toks : List String) : Option (M Val) :=
  match toks with
  | "connect" :: r =>
    some (devConnect (parseNatList ((kv r "keys").getD "")) (getT r "tt") (getT r "at") (getT r "rt") (getFlag r "cb"))
  | "close" :: _ => some devClose
  -- calling a generator function (streaming_shell) WITHOUT iterating it runs none of its body: the later iteration is the operation
  | "nop" :: _ => some (pure Val.none)
  | "shell" :: r => some (devShellLike "shell" (ascii "shell") (getHex r "cmd") (getT r "tt") (getT r "rt") (getT r "t") (getFlag r "decode"))
  | "exec_out" :: r => some (devShellLike "exec_out" (ascii "exec") (getHex r "cmd") (getT r "tt") (getT r "rt") (getT r "t") (getFlag r "decode"))
  | "root" :: r => some (devRoot (getT r "tt") (getT r "rt") (getT r "t"))
  | "reboot" :: r => some (devReboot (getFlag r "fastboot") (getT r "tt") (getT r "rt") (getT r "t"))
  | "streaming_shell" :: r => some (devStreamingShell (getHex r "cmd") (getT r "tt") (getT r "rt") (getFlag r "decode"))
  | "list" :: r => some (devList (getHex r "path") (getT r "tt") (getT r "rt"))
  | "stat" :: r => some (devStat (getHex r "path") (getT r "tt") (getT r "rt"))
  | "pull" :: r => some (devPull (getHex r "path") (parseCb ((kv r "cb").getD "none")) (getT r "tt") (getT r "rt"))
  | "push" :: r =>
    match (kv r "src").bind parseSrc with
    | some src => some (devPush src (getHex r "path") (getNat r "mode") (getNat r "mtime") (parseCb ((kv r "cb").getD "none")) (getT r "tt") (getT r "rt"))
    | none => none
  | _ => none

def showOptBytes : Option Bytes → String
  | none => "N"
  | some b => toHex b

def runOpLine (s : Sess) (toks : List String) : Sess × String :=
  match buildOp toks with
  | none => (s, "bad-op")
  | some m =>
    let w0 := { s.w with trace := [], sink := none }
    let before := (totalPeer w0).length
    let (r, w1) := m w0
    let peer := (totalPeer w1).drop before
    let res := match r with
      | .ok v => "ok " ++ showVal v
      | .error e => "err " ++ showErr e
    let streaming := toks.head? == some "streaming_shell"
    let dec := getFlag toks "decode"
    let evs := w1.trace.reverse.filterMap fun e =>
      match e with
      | .yielded d => if streaming then some ("yield:" ++ toHex (if dec then Utf8.encode (Utf8.decodeBS d) else d)) else none
      | e => showEv e
    let out := s!"res={res} peer={toHex peer} avail={if w1.available then 1 else 0} maxdata={w1.maxdata} lid={w1.localId} "
      ++ s!"storelen={w1.store.len} store={showStoreSorted w1.store} now={w1.now} locks={w1.locks.length} sink={showOptBytes w1.sink} ev=[{",".intercalate evs}]"
    let out := if s.detail then out ++ " trace=[" ++ ";".intercalate (w1.trace.reverse.map showEvFull) ++ "]" else out
    ({ s with w := w1 }, out)

def stepSess (s : Sess) (toks : List String) : Sess × String :=
  match toks with
  | "new" :: r =>
    let w : World := { now := Int.ofNat (getNat r "now"), fuel := if (kv r "fuel").isSome then getNat r "fuel" else 100000,
                       banner := getHex r "banner", defaultTT := getT r "dtt" }
    ({ w := w, detail := getFlag r "detail" }, "ok")
  | "conn" :: r =>
    let c : Conn := { dt := Int.ofNat (getNat r "dt"), writeNone := getFlag r "wnone", connectFails := getFlag r "cfail",
                      frags := parseNatList ((kv r "frags").getD ""), ofrags := parseNatList ((kv r "ofrags").getD ""),
                      faults := (((kv r "faults").getD "").splitOn ",").filterMap parseFault }
    ({ s with building := c :: s.building }, "ok")
  | ["seg", need, hex] =>
    match need.toNat?, fromHex hex with
    | some n, some bs =>
      match s.building with
      | [] => (s, "bad-op")
      | c :: rest => ({ s with building := { c with segs := ⟨n, bs⟩ :: c.segs } :: rest }, "ok")
    | _, _ => (s, "bad-op")
  | ["file", id, hex] =>
    match id.toNat?, fromHex hex with
    | some i, some bs => ({ s with w := { s.w with files := s.w.files ++ [(i, bs)] } }, "ok")
    | _, _ => (s, "bad-op")
  | ["dir", id, ents] =>
    match id.toNat? with
    | some i =>
      let es := ((if ents == "-" then [] else ents.splitOn ",").filterMap fun e =>
        match e.splitOn ":" with
        | [n, f] => match fromHex n, f.toNat? with
          | some nb, some fid => some (nb, fid)
          | _, _ => none
        | _ => none)
      ({ s with w := { s.w with dirs := s.w.dirs ++ [(i, es)] } }, "ok")
    | none => (s, "bad-op")
  | "set" :: r =>
    let w := s.w
    let w := if (kv r "lid").isSome then { w with localId := getNat r "lid" } else w
    let w := if (kv r "maxdata").isSome then { w with maxdata := getNat r "maxdata" } else w
    let w := if (kv r "avail").isSome then { w with available := getFlag r "avail" } else w
    ({ s with w := w }, "ok")
  | "op" :: r => runOpLine s.finalize r
  | _ => (s, "bad-op")

end Drv
