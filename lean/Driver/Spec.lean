import AdbModel
import Driver.Util
import Driver.Conc
/- `spec …` requests: the executable specification functions evaluated on what the IMPLEMENTATION was observed to receive / send. -/
namespace Drv
open Adb

def parseFmt (s : String) : SyncFmt :=
  if s == "list" then .list else if s == "stat" then .stat else if s == "push" then .push else .pull

def showRec (r : SyncRec) : String :=
  r.id.name ++ ":" ++ "/".intercalate (r.fields.map toString) ++ ":" ++ (match r.data with | none => "N" | some d => toHex d)

def stepSpec (toks : List String) : String :=
  match toks with
  | "streamitems" :: r =>
    let l := ((kv r "lid").bind (·.toNat?)).getD 0
    let pkts := (((kv r "pkts").getD "").splitOn ",").filterMap parsePkt
    match Spec.streamItems l pkts with
    | none => "none"
    | some (items, rest) => s!"ok items=[{",".intercalate (items.map toHex)}] rest={rest.length}"
  | "records" :: r =>
    let fmt := parseFmt ((kv r "fmt").getD "pull")
    let stop := (((kv r "stop").getD "DONE").splitOn ",").filterMap SyncId.ofName?
    match (kv r "bytes").bind fromHex with
    | none => "bad-op"
    | some bs => "ok " ++ "|".intercalate ((Spec.records fmt stop (bs.length + 1) bs).map showRec)
  | "chunks" :: r =>
    let k := ((kv r "k").bind (·.toNat?)).getD 1
    match (kv r "bytes").bind fromHex with
    | none => "bad-op"
    | some bs => "ok " ++ ",".intercalate ((Spec.chunksOf k bs).map (fun c => toString c.length))
  | ["maxchunk", md] =>
    match md.toNat? with
    | some m => s!"ok {maxChunkSize m}"
    | none => "bad-op"
  | _ => "bad-op"

end Drv
