import AdbModel
import AdbModel.Keys
import Driver.Util
/-
  Line protocol for the key-material model (C17).  Numbers are hexadecimal (any length), byte
  strings are hex ("-" = empty).
    sign n= d= tok=                 -> ok <256-byte signature hex>
    verify n= e= tok= sig=          -> ok 1|0
    emsa tok=                       -> ok <hex>
    blob n= e=                      -> ok <hex>
    decode blob=                    -> ok words=.. n0inv=<hex> n=<hex> rr=<hex> e=<hex> | err
    pubfile n= e= comment=<hex>     -> ok <hex>
    userinfo user=<hex> host=<hex>  -> ok <hex>
    b64enc data= / b64dec data=     -> ok <hex> | err
    powmod b= e= m=                 -> ok <hex number>
    check n= e= d= p= q=            -> ok pq=<0|1> ed=<0|1> bits=<bit length of n> odd=<0|1>
-/
namespace Drv
open Adb Adb.Keys

def hexNat (s : String) : Option Nat :=
  if s.isEmpty then none else
  s.toList.foldl (fun acc c => match acc, hexVal c with
    | some a, some v => some (16 * a + v)
    | _, _ => none) (some 0)

def natHex (n : Nat) : String :=
  String.ofList ((Nat.toDigits 16 n))

def kvNat (toks : List String) (key : String) : Option Nat := (kv toks key).bind hexNat
def kvHex (toks : List String) (key : String) : Option Bytes := (kv toks key).bind fromHex

def b01 (b : Bool) : String := if b then "1" else "0"

def stepKeys (toks : List String) : String :=
  match toks with
  | "sign" :: args =>
    match kvNat args "n", kvNat args "d", kvHex args "tok" with
    | some n, some d, some tok => "ok " ++ toHex (sign n d tok)
    | _, _, _ => "bad-op"
  | "verify" :: args =>
    match kvNat args "n", kvNat args "e", kvHex args "tok", kvHex args "sig" with
    | some n, some e, some tok, some sg => "ok " ++ b01 (verify n e tok sg)
    | _, _, _, _ => "bad-op"
  | "emsa" :: args =>
    match kvHex args "tok" with
    | some tok => "ok " ++ toHex (emsa tok modSize)
    | _ => "bad-op"
  | "blob" :: args =>
    match kvNat args "n", kvNat args "e" with
    | some n, some e => "ok " ++ toHex (blob n e)
    | _, _ => "bad-op"
  | "decode" :: args =>
    match kvHex args "blob" with
    | some bs =>
      match decodeBlob bs with
      | some (w, ni, n, r, e) => s!"ok words={w} n0inv={natHex ni} n={natHex n} rr={natHex r} e={natHex e}"
      | none => "err"
    | _ => "bad-op"
  | "pubfile" :: args =>
    match kvNat args "n", kvNat args "e", kvHex args "comment" with
    | some n, some e, some c => "ok " ++ toHex (pubFile n e c)
    | _, _, _ => "bad-op"
  | "userinfo" :: args =>
    match kvHex args "user", kvHex args "host" with
    | some u, some h => "ok " ++ toHex (userInfo u h)
    | _, _ => "bad-op"
  | "b64enc" :: args =>
    match kvHex args "data" with
    | some d => "ok " ++ toHex (b64encode d)
    | _ => "bad-op"
  | "b64dec" :: args =>
    match kvHex args "data" with
    | some d => match b64decode d with
      | some r => "ok " ++ toHex r
      | none => "err"
    | _ => "bad-op"
  | "powmod" :: args =>
    match kvNat args "b", kvNat args "e", kvNat args "m" with
    | some b, some e, some m => "ok " ++ natHex (powMod b e m)
    | _, _, _ => "bad-op"
  | "check" :: args =>
    match kvNat args "n", kvNat args "e", kvNat args "d", kvNat args "p", kvNat args "q" with
    | some n, some e, some d, some p, some q =>
      let pq := p * q == n
      let ed := decide (1 < p) && decide (1 < q)
                && (e * d % (p - 1) == 1 % (p - 1)) && (e * d % (q - 1) == 1 % (q - 1))
      let bits := if n = 0 then 0 else n.log2 + 1
      s!"ok pq={b01 pq} ed={b01 ed} bits={bits} odd={b01 (n % 2 == 1)}"
    | _, _, _, _, _ => "bad-op"
  | _ => "bad-op"

end Drv
