import AdbModel
import AdbModel.Tcp
import Driver.Util
/-
  Line protocol for the TCP trace acceptor (property C18), dispatch word `tcp`.

    tcp accepts <ev> <ev> ...      ->  ok 1
                                       ok 0 <index> <reason> <event token>      (first offending event)
                                       bad-op <index> <token>                   (unparsable token)
  Event tokens (hex as everywhere else; `-` is the empty byte string):
    co            connect                         cl            close
    pw:<hex>      peer is about to write bytes    pd            the peer's writes so far have completed
    pe            peer is about to close its side
    rs:<n>        bulk_read(n, _) starts          rd:<n>:<hex>  ... returns these bytes
    rt:<n>        ... raises TcpTimeoutException  wr:<len>:<k>  bulk_write of len bytes returned k
-/
namespace Drv
open Adb Adb.Tcp

def parseEv (tok : String) : Option Ev :=
  match tok.splitOn ":" with
  | ["co"] => some .connect
  | ["cl"] => some .close
  | ["pd"] => some .peerDone
  | ["pe"] => some .peerEof
  | ["pw", h] => (fromHex h).map .peerWrite
  | ["rs", n] => n.toNat?.map .readStart
  | ["rt", n] => n.toNat?.map .readTimeout
  | ["rd", n, h] => match n.toNat?, fromHex h with
    | some n, some bs => some (.read n bs)
    | _, _ => none
  | ["wr", l, k] => match l.toNat?, k.toNat? with
    | some l, some k => some (.write l k)
    | _, _ => none
  | _ => none

def parseEvs : List String → Nat → List Ev → Except (Nat × String) (List Ev)
  | [], _, acc => .ok acc.reverse
  | t :: ts, i, acc => match parseEv t with
    | some e => parseEvs ts (i + 1) (e :: acc)
    | none => .error (i, t)

def showReason : Reason → String
  | .notConnected => "notConnected"
  | .readPending => "readPending"
  | .noReadPending => "noReadPending"
  | .tooLong => "tooLong"
  | .notInOrder => "notInOrder"
  | .emptyWithoutEof => "emptyWithoutEof"
  | .prematureTimeout => "prematureTimeout"
  | .badCount => "badCount"

def stepTcp (toks : List String) : String :=
  match toks with
  | "accepts" :: evs =>
    match parseEvs evs 0 [] with
    | .error (i, t) => s!"bad-op {i} {(t.take 24).toString}"
    | .ok tr =>
      if accepts tr then "ok 1"
      else match firstBad {} 0 tr with
        | some (i, r) => s!"ok 0 {i} {showReason r} {(((evs.drop i).headD "?").take 40).toString}"
        | none => "ok 0 ? ? ?"
  | _ => "bad-op"

end Drv
