import AdbModel.Monitor
import Driver.Util
/-
  `monitor <ev>;<ev>;…` requests: the Lean transcription of the harness' per-stream protocol monitor
  (`oracles._monitor`) run on a packet log.  `<ev>` = `h|d,<CMD>,<arg0>,<arg1>,<hexdata>` (`h` = sent by
  the host, `d` = sent by the device; `-` or nothing for an empty payload).  The reply is `ok` or the
  violation constructor names joined by `,`, in the order the Python function appends its messages;
  `bad-op` when an event does not parse.
-/
namespace Drv
open Adb

def parseMonEv (s : String) : Option Monitor.Ev :=
  match s.splitOn "," with
  | [who, c, a0, a1, hex] =>
    let fromHost? : Option Bool := if who == "h" then some true else if who == "d" then some false else none
    match fromHost?, Cmd.ofName? c, a0.toNat?, a1.toNat?, (if hex.isEmpty then some [] else fromHex hex) with
    | some fh, some c, some a0, some a1, some d => some ⟨fh, c, a0, a1, d⟩
    | _, _, _, _, _ => none
  | [who, c, a0, a1] =>
    let fromHost? : Option Bool := if who == "h" then some true else if who == "d" then some false else none
    match fromHost?, Cmd.ofName? c, a0.toNat?, a1.toNat? with
    | some fh, some c, some a0, some a1 => some ⟨fh, c, a0, a1, []⟩
    | _, _, _, _ => none
  | _ => none

def showViols (vs : List Monitor.Viol) : String :=
  if vs.isEmpty then "ok" else ",".intercalate (vs.map (·.name))

/-- handler of the `monitor` request; `args` are the tokens after the keyword -/
def Mon.handle (args : List String) : String :=
  let items := ((";".intercalate args).splitOn ";").filter (· ≠ "")
  let evs := items.map parseMonEv
  if evs.any (·.isNone) then "bad-op"
  else showViols (Monitor.check (evs.filterMap id))

/-- the same under the naming convention of `Driver/Main.lean` (`stepSpec`, `stepTcp`, …) -/
def stepMonitor (args : List String) : String := Mon.handle args

/-! Sanity checks: the verdicts below are those of `oracles._monitor` (Python) on the same logs. -/
#guard Mon.handle ["h,OPEN,1,0,7368656c6c3a6c7300;d,OKAY,77,1,-;d,WRTE,77,1,78;h,OKAY,1,77,-;d,CLSE,77,1,-;h,CLSE,1,77,-"] == "ok"
#guard Mon.handle ["h,OPEN,1,0,7368656c6c3a6c7300;d,OKAY,77,1,-;d,WRTE,77,1,78;h,OKAY,1,77,-;h,OKAY,1,77,-"] == "spuriousOkay"
#guard Mon.handle ["h,OPEN,1,0,73796e633a00;d,OKAY,7,1,-;h,WRTE,1,7,61;h,WRTE,1,7,62"] == "secondWrte"
#guard Mon.handle ["h,OPEN,1,0,73796e633a00;d,OKAY,7,1,-;h,CLSE,1,7,-;h,CLSE,1,7,-"] == "afterClose"
#guard Mon.handle ["h,OPEN,1,0,73796e633a00;d,OKAY,7,1,-;d,WRTE,7,1,71;h,OKAY,1,8,-"] == "wrongRemote"
#guard Mon.handle ["h,OPEN,1,0,73796e633a00;h,OPEN,1,0,73796e633a00"] == "openReusesLive"
#guard Mon.handle ["h,OPEN,0,1,73796e633a;h,OKAY,5,1,-;d,WRTE,3,9,7a7a;h,CNXN,1,2,78"] == "openMalformed,unknownStream"
#guard Mon.handle ["h,OPEN,1,0,6100;d,OKAY,7,1,-;d,CLSE,7,1,-;h,CLSE,1,7,-;h,OPEN,1,0,6100;h,WRTE,1,9,-;d,OKAY,3,1,-;h,WRTE,1,9,-;h,CLSE,1,3,-;h,OKAY,1,4,-"]
  == "wrongRemote,wrongRemote,afterClose,spuriousOkay"
#guard Mon.handle [] == "ok"
#guard Mon.handle ["x,OPEN,1,0,-"] == "bad-op"

end Drv
