/-
  Basic vocabulary of the model: bytes, little-endian 32-bit words, byte sums, association lists
  that behave like Python dicts (insertion ordered, update in place, delete, re-insert at the end).
  No Mathlib here: the driver executable links this library.
-/
namespace Adb

abbrev Bytes := List UInt8

/-- `struct.pack('<I', n)` for `n < 2^32` (Python raises `struct.error` outside that range;
    callers guard). -/
def le32 (n : Nat) : Bytes :=
  [UInt8.ofNat n, UInt8.ofNat (n / 256), UInt8.ofNat (n / 65536), UInt8.ofNat (n / 16777216)]

/-- `struct.unpack('<I', bs[:4])` together with the rest. -/
def rd32 : Bytes → Option (Nat × Bytes)
  | a :: b :: c :: d :: rest =>
      some (a.toNat + 256 * b.toNat + 65536 * c.toNat + 16777216 * d.toNat, rest)
  | _ => none

/-- `sum(data)` over a bytes object. -/
def byteSum : Bytes → Nat
  | [] => 0
  | b :: bs => b.toNat + byteSum bs

/-- ASCII bytes of a string (all ids are ASCII). -/
def ascii (s : String) : Bytes := s.toList.map (fun c => UInt8.ofNat c.toNat)

/-! ### Python-dict-like association lists -/

def alookup {β : Type} (k : Nat) : List (Nat × β) → Option β
  | [] => none
  | (k', v) :: rest => if k' = k then some v else alookup k rest

/-- `d[k] = v`: in place when the key exists, appended otherwise. -/
def aset {β : Type} (k : Nat) (v : β) : List (Nat × β) → List (Nat × β)
  | [] => [(k, v)]
  | (k', v') :: rest => if k' = k then (k', v) :: rest else (k', v') :: aset k v rest

/-- `del d[k]` (no-op when absent). -/
def adel {β : Type} (k : Nat) : List (Nat × β) → List (Nat × β)
  | [] => []
  | (k', v') :: rest => if k' = k then rest else (k', v') :: adel k rest

def akeys {β : Type} (l : List (Nat × β)) : List Nat := l.map (·.1)

end Adb
