/-
  TCP transports (`adb_shell/transport/tcp_transport.py`, `tcp_transport_async.py`).

  Three layers, all executable and Mathlib-free:

  1. An ABSTRACT socket `Sock σ` (a structure of functions over an opaque world `σ`: the operating system,
     the peer and — for the async transport — the asyncio stream buffers) and the assumptions `SockSem`
     we make about it.  `SockSem` is a `Prop`-valued structure that theorems take as a HYPOTHESIS; it is
     never postulated.  `simSock` is a small concrete socket that satisfies it (proved in
     `AdbProofs/Lemmas/Tcp.lean`), so the hypothesis is satisfiable.
  2. The transport object `TState` and its four methods `close / connect / bulkRead / bulkWrite`
     transcribed branch for branch.  The synchronous and the asynchronous class are ONE function with a
     flag `async`; the flag matters in exactly two places (a zero-length read, and `bulk_write`).
  3. A TRACE ACCEPTOR `accepts : List Ev → Bool` over events observed on a real connection.  It is the
     nondeterministic specification in executable form: real fragmentation is a choice it validates
     rather than predicts.  `C18_acceptor_sound` says what an accepted trace guarantees.
-/
import AdbModel.Basic
namespace Adb.Tcp

abbrev SockId := Nat

/-- `transport_timeout_s`: `none` is Python `None` (block), `some d` is `d` time units. -/
abbrev Timeout := Option Nat

/-- `if transport_timeout_s:` — `None` and `0` are falsy. -/
def Timeout.truthy : Timeout → Bool
  | some (_ + 1) => true
  | _ => false

/-! ### 1. The abstract socket -/

structure Sock (σ : Type) where
  /-- bytes written by the peer on connection `c` that the host has not received yet, oldest first
      (kernel receive queue; for the async transport plus the `StreamReader` buffer) -/
  buffered : σ → SockId → Bytes
  /-- the peer has shut down its sending side and everything it sent has arrived -/
  eof : σ → SockId → Bool
  now : σ → Nat
  /-- ghost: everything the host has handed to the socket for sending on `c`, oldest first -/
  sent : σ → SockId → Bytes
  /-- `select.select([c], [], [], t)` / the wait inside `StreamReader.read`: world afterwards, readable? -/
  waitReadable : σ → SockId → Timeout → σ × Bool
  /-- `c.recv(n)` / taking up to `n` bytes out of the `StreamReader` buffer -/
  recv : σ → SockId → Nat → σ × Bytes
  /-- `select.select([], [c], [], t)` -/
  waitWritable : σ → SockId → Timeout → σ × Bool
  /-- `c.send(data)`: number of bytes accepted -/
  send : σ → SockId → Bytes → σ × Nat
  /-- `writer.write(data)` followed by `await writer.drain()` under the timeout: drained in time? -/
  sendAll : σ → SockId → Bytes → Timeout → σ × Bool
  /-- `socket.create_connection` / `asyncio.open_connection`: a fresh connection, or failure -/
  openConn : σ → Timeout → σ × Option SockId
  /-- `shutdown(SHUT_RDWR); close()` / `writer.close(); wait_closed()` -/
  closeConn : σ → SockId → σ

/-- What we ASSUME about Linux sockets, `select` and asyncio streams.  During any call the peer may
    append to the buffered stream (`extra`); nothing else may change it except `recv`, which removes
    exactly the prefix it returns. -/
structure SockSem {σ : Type} (S : Sock σ) : Prop where
  /-- waiting never removes or reorders buffered data -/
  wait_appends : ∀ w c t w' r, S.waitReadable w c t = (w', r) → ∃ extra, S.buffered w' c = S.buffered w c ++ extra
  /-- `select` reports readable iff there is buffered data or EOF -/
  wait_readable : ∀ w c t w' r, S.waitReadable w c t = (w', r) → (r = true ↔ (S.buffered w' c ≠ [] ∨ S.eof w' c = true))
  /-- otherwise it returns empty, and only after the timeout (so never with `None`) -/
  wait_timeout : ∀ w c t w' r, S.waitReadable w c t = (w', r) → r = false → ∃ d, t = some d ∧ S.now w' = S.now w + d
  /-- `recv n` on a readable socket returns a prefix of the buffered stream of length ≤ n and removes it -/
  recv_prefix : ∀ w c n w' bs, S.recv w c n = (w', bs) → (S.buffered w c ≠ [] ∨ S.eof w c = true) →
      bs.length ≤ n ∧ ∃ extra, bs ++ S.buffered w' c = S.buffered w c ++ extra
  /-- … which is empty only at EOF (or when zero bytes were asked for) -/
  recv_nonempty : ∀ w c n w' bs, S.recv w c n = (w', bs) → (S.buffered w c ≠ [] ∨ S.eof w c = true) →
      bs = [] → n = 0 ∨ S.buffered w c = []
  /-- `send` on a writable socket accepts `1 ≤ k ≤ len` bytes (0 only of nothing), exactly the first `k` -/
  send_count : ∀ w c data w' k, S.send w c data = (w', k) →
      k ≤ data.length ∧ (data ≠ [] → 1 ≤ k) ∧ S.sent w' c = S.sent w c ++ data.take k
  /-- waiting for writability sends nothing -/
  waitw_sent : ∀ w c t w' r, S.waitWritable w c t = (w', r) → S.sent w' c = S.sent w c
  /-- `writer.write` queues ALL of `data`, whether or not the drain then finishes in time -/
  sendall_sent : ∀ w c data t w' r, S.sendAll w c data t = (w', r) → S.sent w' c = S.sent w c ++ data

/-! ### 2. The transport object -/

/-- `_connection` (sync) or `_reader`/`_writer` (async; they are set and cleared together), and whether
    the socket was put in non-blocking mode by `connect`. -/
structure TState where
  conn : Option SockId := none
  nonblocking : Bool := false
  deriving DecidableEq, Repr

inductive RdRes
  | data (bs : Bytes)
  | timeout                 -- TcpTimeoutException
  | notConnected            -- `select([None])` / `None.read`: TypeError / AttributeError
  deriving DecidableEq, Repr

inductive WrRes
  | count (k : Nat)
  | timeout
  | notConnected
  deriving DecidableEq, Repr

variable {σ : Type}

/-- `close()`: a no-op without a connection, otherwise shut down, close and forget it. -/
def close (S : Sock σ) (w : σ) (s : TState) : σ × TState :=
  match s.conn with
  | some c => (S.closeConn w c, { conn := none, nonblocking := false })
  | none => (w, s)

/-- `connect(t)`: on failure the exception propagates and the object is unchanged (`false`). -/
def connect (S : Sock σ) (w : σ) (s : TState) (t : Timeout) : σ × TState × Bool :=
  match S.openConn w t with
  | (w', some c) => (w', { conn := some c, nonblocking := t.truthy }, true)
  | (w', none) => (w', s, false)

/-- `bulk_read(numbytes, t)`.  sync: `select` then `recv(numbytes)`; async: `reader.read(numbytes)` under
    `async_timeout.timeout(t)`, which is the same wait followed by the same removal, except that
    `StreamReader.read(0)` returns `b''` at once. -/
def bulkRead (S : Sock σ) (async : Bool) (w : σ) (s : TState) (n : Nat) (t : Timeout) : σ × RdRes :=
  match s.conn with
  | none => (w, .notConnected)
  | some c =>
    if async && n == 0 then (w, .data [])
    else
      match S.waitReadable w c t with
      | (w1, true) => match S.recv w1 c n with
        | (w2, bs) => (w2, .data bs)
      | (w1, false) => (w1, .timeout)

/-- `bulk_write(data, t)`.  sync: `select` for writability then ONE `send`, whose count is returned
    (possibly short); async: `writer.write(data)`, `drain()` under the timeout, `len(data)`. -/
def bulkWrite (S : Sock σ) (async : Bool) (w : σ) (s : TState) (data : Bytes) (t : Timeout) : σ × WrRes :=
  match s.conn with
  | none => (w, .notConnected)
  | some c =>
    if async then
      match S.sendAll w c data t with
      | (w1, true) => (w1, .count data.length)
      | (w1, false) => (w1, .timeout)
    else
      match S.waitWritable w c t with
      | (w1, true) => match S.send w1 c data with
        | (w2, k) => (w2, .count k)
      | (w1, false) => (w1, .timeout)

/-- A sequence of `bulk_read` calls `(numbytes, timeout)` on one transport object. -/
def runReads (S : Sock σ) (async : Bool) (s : TState) : σ → List (Nat × Timeout) → σ × List RdRes
  | w, [] => (w, [])
  | w, (n, t) :: rest =>
    match bulkRead S async w s n t with
    | (w1, r) => match runReads S async s w1 rest with
      | (w2, rs) => (w2, r :: rs)

/-- Concatenation of everything a list of read outcomes delivered. -/
def dataOf : List RdRes → Bytes
  | [] => []
  | .data bs :: rest => bs ++ dataOf rest
  | _ :: rest => dataOf rest

/-- The read half of the transport contract, as a predicate on a `bulk_read` function, so that it can be
    stated once and proved for both flags. -/
structure ReadContract (S : Sock σ) (rd : σ → TState → Nat → Timeout → σ × RdRes) : Prop where
  le_requested : ∀ w s n t w' bs, rd w s n t = (w', .data bs) → bs.length ≤ n
  removes_prefix : ∀ w s c n t w' bs, s.conn = some c → rd w s n t = (w', .data bs) →
      ∃ extra, bs ++ S.buffered w' c = S.buffered w c ++ extra
  timeout_keeps : ∀ w s c n t w', s.conn = some c → rd w s n t = (w', .timeout) →
      S.buffered w c = [] ∧ S.buffered w' c = [] ∧ ∃ d, t = some d ∧ S.now w' = S.now w + d
  connected_ok : ∀ w s c n t, s.conn = some c → (rd w s n t).2 ≠ .notConnected

/-! ### A concrete socket (one connection at a time) that satisfies `SockSem` -/

structure SimWorld where
  buf : Bytes := []
  eof : Bool := false
  now : Nat := 0
  /-- what the peer does during successive waits on an empty buffer: write these bytes (`[]` = stay idle
      for the whole timeout) -/
  script : List Bytes := []
  /-- `recv`/`send` move at most `cap + 1` bytes at a time -/
  cap : Nat := 0
  sent : Bytes := []
  nextId : Nat := 0
  refuse : Bool := false
  deriving DecidableEq, Repr

def simWait (w : SimWorld) (t : Timeout) : SimWorld × Bool :=
  if w.buf ≠ [] ∨ w.eof = true then (w, true)
  else match w.script, t with
    | x :: rest, some d =>
      if x = [] then ({ w with script := rest, now := w.now + d }, false)
      else ({ w with script := rest, buf := x }, true)
    | x :: rest, none =>
      if x = [] then ({ w with script := rest, eof := true }, true)
      else ({ w with script := rest, buf := x }, true)
    | [], some d => ({ w with now := w.now + d }, false)
    | [], none => ({ w with eof := true }, true)

def simSock : Sock SimWorld where
  buffered w _ := w.buf
  eof w _ := w.eof
  now w := w.now
  sent w _ := w.sent
  waitReadable w _ t := simWait w t
  recv w _ n := ({ w with buf := w.buf.drop (min n (w.cap + 1)) }, w.buf.take (min n (w.cap + 1)))
  waitWritable w _ _ := (w, true)
  send w _ data := ({ w with sent := w.sent ++ data.take (min data.length (w.cap + 1)) }, min data.length (w.cap + 1))
  sendAll w _ data t := ({ w with sent := w.sent ++ data }, t != some 0)
  openConn w _ :=
    if w.refuse then (w, none)
    else ({ w with buf := [], eof := false, sent := [], nextId := w.nextId + 1 }, some w.nextId)
  closeConn w _ := { w with buf := [], eof := true }

/-! ### 3. The trace acceptor -/

/-- Events observed on a real connection, in one linear order (the harness merges the peer thread's log
    with the host's by a common monotonic clock).
    A peer write is bracketed: `peerWrite bs` is logged BEFORE the peer calls `sendall(bs)` (none of
    these bytes can reach the host earlier), `peerDone` AFTER it returned (all bytes of all earlier
    `peerWrite`s have left the peer).  `peerEof` is logged before the peer closes its sending side.
    A host read is bracketed by `readStart n` and either `read n bs` or `readTimeout n`. -/
inductive Ev
  | peerWrite (bs : Bytes)
  | peerDone
  | peerEof
  | readStart (n : Nat)
  | read (n : Nat) (bs : Bytes)
  | readTimeout (n : Nat)
  | write (len k : Nat)
  | close
  | connect
  deriving DecidableEq, Repr

def Ev.isPeer : Ev → Bool
  | .peerWrite _ | .peerDone | .peerEof => true
  | _ => false

/-- host I/O on the connection (as opposed to `close` / `connect` / peer events) -/
def Ev.isIO : Ev → Bool
  | .readStart _ | .read _ _ | .readTimeout _ | .write _ _ => true
  | _ => false

inductive Reason
  | notConnected        -- read/write on a closed transport
  | readPending         -- host event other than the end of the read in progress
  | noReadPending       -- read end without (or not matching) its start
  | tooLong             -- result longer than requested
  | notInOrder          -- result is not the next bytes of the peer's stream (loss, duplication, reordering, invention)
  | emptyWithoutEof     -- `b''` for a non-zero request although the peer has not closed
  | prematureTimeout    -- timeout although completely written bytes were still undelivered when the read started
  | badCount            -- write count > len, or 0 for non-empty data
  deriving DecidableEq, Repr

structure St where
  isOpen : Bool := false
  /-- peer bytes whose write has begun and which no read has returned yet -/
  unread : Bytes := []
  gotLen : Nat := 0
  begunLen : Nat := 0
  doneLen : Nat := 0
  peerClosed : Bool := false
  /-- read in progress: requested size, and `doneLen` when it started -/
  pending : Option (Nat × Nat) := none
  deriving DecidableEq, Repr

def step (s : St) (e : Ev) : Except Reason St :=
  match e with
  | .peerWrite bs => .ok { s with unread := s.unread ++ bs, begunLen := s.begunLen + bs.length }
  | .peerDone => .ok { s with doneLen := s.begunLen }
  | .peerEof => .ok { s with peerClosed := true }
  | .readStart n =>
    if !s.isOpen then .error .notConnected
    else if s.pending.isSome then .error .readPending
    else .ok { s with pending := some (n, s.doneLen) }
  | .read n bs =>
    if !s.isOpen then .error .notConnected
    else match s.pending with
      | none => .error .noReadPending
      | some (m, _) =>
        if m ≠ n then .error .noReadPending
        else if n < bs.length then .error .tooLong
        else if !bs.isPrefixOf s.unread then .error .notInOrder
        else if bs.isEmpty && n ≠ 0 && !s.peerClosed then .error .emptyWithoutEof
        else .ok { s with unread := s.unread.drop bs.length, gotLen := s.gotLen + bs.length, pending := none }
  | .readTimeout n =>
    if !s.isOpen then .error .notConnected
    else match s.pending with
      | none => .error .noReadPending
      | some (m, d0) =>
        if m ≠ n then .error .noReadPending
        else if s.gotLen < d0 then .error .prematureTimeout
        else .ok { s with pending := none }
  | .write len k =>
    if !s.isOpen then .error .notConnected
    else if s.pending.isSome then .error .readPending
    else if len < k || (len ≠ 0 && k == 0) then .error .badCount
    else .ok s
  | .close =>
    if s.pending.isSome then .error .readPending
    else .ok { s with isOpen := false }
  | .connect =>
    if s.pending.isSome then .error .readPending
    else .ok { isOpen := true }

def run (s : St) : List Ev → Except Reason St
  | [] => .ok s
  | e :: es => match step s e with
    | .ok s' => run s' es
    | .error r => .error r

/-- The property as an executable check of an observed trace (a fresh transport object is closed). -/
def accepts (tr : List Ev) : Bool :=
  match run {} tr with
  | .ok _ => true
  | .error _ => false

/-- Index and reason of the first offending event (for diagnostics only). -/
def firstBad (s : St) (i : Nat) : List Ev → Option (Nat × Reason)
  | [] => none
  | e :: es => match step s e with
    | .ok s' => firstBad s' (i + 1) es
    | .error r => some (i, r)

/-! #### Plain list functions in which the guarantees of an accepted trace are stated -/

/-- the events after the last `connect` (the current connection) -/
def sinceConnect (tr : List Ev) : List Ev :=
  tr.foldl (fun acc e => if e = .connect then [] else acc ++ [e]) []

/-- is the transport connected after `tr`: the last `connect`/`close` event is a `connect` -/
def connectedAfter (tr : List Ev) : Bool :=
  tr.foldl (fun b e => if e = .connect then true else if e = .close then false else b) false

/-- everything the peer has started to write -/
def writtenBytes (tr : List Ev) : Bytes :=
  (tr.filterMap fun | .peerWrite bs => some bs | _ => none).flatten

/-- everything reads have returned -/
def readBytes (tr : List Ev) : Bytes :=
  (tr.filterMap fun | .read _ bs => some bs | _ => none).flatten

/-- `(begun, completed)`: number of bytes in `peerWrite`s, and in `peerWrite`s followed by a `peerDone` -/
def writeProgress (tr : List Ev) : Nat × Nat :=
  tr.foldl (fun p e => match e with
    | .peerWrite bs => (p.1 + bs.length, p.2)
    | .peerDone => (p.1, p.1)
    | _ => p) (0, 0)

def completedLen (tr : List Ev) : Nat := (writeProgress tr).2

end Adb.Tcp
