import AdbModel.Txn
/-
  Small-step interleaving model of several threads (or asyncio tasks) reading their streams through
  one `_AdbIOManager.read`.  Atomic steps are the code's lock-protected blocks:
    * `pre i`  – the store-only pre-check at the top of `read` (under the store lock);
    * `iter i` – one iteration of the `while True:` body, under the transport lock: drain the own
                 queue; else take ONE packet off the wire; deliver / drop-as-unexpected / park it for
                 its owner (`put`, which discards a CLSE for a stream without entry: K1) / `clear` on
                 an own CLSE.
  The device's choice of which stream's packet comes next is the (universally quantified) `wire`;
  the scheduler's choice is the list of `Choice`s.  Each reader behaves like `_read_until_close`:
  it keeps calling `read([CLSE, WRTE], allow_zeros=True)` until it is given a CLSE.
-/
namespace Adb
namespace Conc

structure Reader where
  lid : Nat
  rid : Nat
  expected : List Cmd := [.CLSE, .WRTE]
  inLoop : Bool := false        -- false: the next step of this reader is the pre-check of a new `read` call
  given : List Pkt := []        -- packets returned to this reader, oldest first
  dropped : List Pkt := []      -- own packets read but not expected (discarded by `read`)
  done : Bool := false          -- it was given its CLSE
  deriving Repr, Inhabited, DecidableEq

structure Sys where
  wire : List Pkt
  store : Store := []
  readers : List Reader
  lost : List Pkt := []         -- packets discarded by `put` (K1)
  deriving Repr, Inhabited

inductive Choice where
  | pre (i : Nat)
  | iter (i : Nat)
  deriving Repr, Inhabited, DecidableEq

/-- `adb_info.args_match(arg0, arg1, allow_zeros=True)` for an open stream -/
def Reader.owns (r : Reader) (p : Pkt) : Bool :=
  (p.arg1 == 0 || p.arg1 == r.lid) && (p.arg0 == 0 || p.arg0 == r.rid)

/-- the `while arg0_arg1:` drain loop: take parked packets of this stream until an expected one -/
def drain (r : Reader) : Nat → Store → List Pkt → Store × Option Pkt × List Pkt
  | 0, s, un => (s, none, un)
  | fuel + 1, s, un =>
    match s.findAllowZeros (some r.rid) (some r.lid) with
    | none => (s, none, un)
    | some k =>
      match s.get (some k.1) (some k.2) with
      | .error _ => (s, none, un)
      | .ok ((c, a0, a1, d), s') =>
        let p : Pkt := ⟨c, a0, a1, d⟩
        if r.expected.contains c then (s', some p, un) else drain r fuel s' (un ++ [p])

def Reader.give (r : Reader) (p : Pkt) : Reader :=
  { r with given := r.given ++ [p], inLoop := false, done := p.cmd == Cmd.CLSE }

def setReader (rs : List Reader) (i : Nat) (r : Reader) : List Reader := rs.set i r

/-- total number of parked packets (fuel for the drain loop) -/
def storeSize (s : Store) : Nat := (s.map fun e => (e.2.map fun q => q.2.length).sum).sum

def step (sys : Sys) : Choice → Sys
  | .pre i =>
    match sys.readers[i]? with
    | none => sys
    | some r =>
      if r.done || r.inLoop then sys else
      let (s', res, un) := drain r (storeSize sys.store + 1) sys.store []
      let r := { r with dropped := r.dropped ++ un }
      match res with
      | some p => { sys with store := s', readers := setReader sys.readers i (r.give p) }
      | none => { sys with store := s', readers := setReader sys.readers i { r with inLoop := true } }
  | .iter i =>
    match sys.readers[i]? with
    | none => sys
    | some r =>
      if r.done || !r.inLoop then sys else
      let (s', res, un) := drain r (storeSize sys.store + 1) sys.store []
      let r := { r with dropped := r.dropped ++ un }
      match res with
      | some p => { sys with store := s', readers := setReader sys.readers i (r.give p) }
      | none =>
        match sys.wire with
        | [] => { sys with store := s', readers := setReader sys.readers i r }     -- nothing to read: the call would time out
        | p :: rest =>
          if r.owns p then
            let s'' := if p.cmd = Cmd.CLSE then s'.clear p.arg0 p.arg1 else s'
            if r.expected.contains p.cmd then
              { sys with wire := rest, store := s'', readers := setReader sys.readers i (r.give p) }
            else
              { sys with wire := rest, store := s'', readers := setReader sys.readers i { r with dropped := r.dropped ++ [p] } }
          else
            let droppedByPut := p.cmd = Cmd.CLSE ∧ s'.queue p.arg0 p.arg1 = none
            { sys with wire := rest, store := s'.put p.arg0 p.arg1 p.cmd p.data,
                       readers := setReader sys.readers i r,
                       lost := if droppedByPut then sys.lost ++ [p] else sys.lost }

def run (sys : Sys) (sched : List Choice) : Sys := sched.foldl step sys

/-- packets addressed to reader `r`'s stream (exact ids: the devices of C06 use distinct non-zero ids) -/
def ownOf (r : Reader) (ps : List Pkt) : List Pkt := ps.filter fun p => p.arg1 == r.lid && p.arg0 == r.rid

/-- distinct non-zero ids; each stream's packets on the wire are WRTE… then one CLSE last -/
def WellFormed (sys : Sys) : Prop :=
  (sys.readers.map (·.lid)).Nodup ∧ (∀ r ∈ sys.readers, r.lid ≠ 0 ∧ r.rid ≠ 0 ∧ r.expected = [.CLSE, .WRTE]) ∧
  (∀ p ∈ sys.wire, p.arg0 ≠ 0 ∧ p.arg1 ≠ 0 ∧ (p.cmd = .WRTE ∨ p.cmd = .CLSE) ∧ ∃ r ∈ sys.readers, r.lid = p.arg1 ∧ r.rid = p.arg0) ∧
  (∀ r ∈ sys.readers, ∀ pre p post, ownOf r sys.wire = pre ++ p :: post → p.cmd = .CLSE → post = [])

/-- what a reader would be given if it were alone on the transport: its WRTEs up to and including its CLSE -/
def aloneGiven (r : Reader) (wire : List Pkt) : List Pkt :=
  let own := ownOf r wire
  match own.findIdx? (·.cmd == Cmd.CLSE) with
  | some k => own.take (k + 1)
  | none => own

end Conc
end Adb
