import AdbModel.Device
/- The public API as a datatype, so that theorems can quantify over "every operation" and over histories. -/
namespace Adb

inductive ApiOp where
  | connect (keys : List Nat) (tt authT rt : Timeout) (hasCb : Bool)
  | close
  | shell (cmd : Bytes) (tt rt total : Timeout) (decode : Bool)
  | execOut (cmd : Bytes) (tt rt total : Timeout) (decode : Bool)
  | root (tt rt total : Timeout)
  | reboot (fastboot : Bool) (tt rt total : Timeout)
  | streamingShell (cmd : Bytes) (tt rt : Timeout) (decode : Bool)
  | list (path : Bytes) (tt rt : Timeout)
  | stat (path : Bytes) (tt rt : Timeout)
  | pull (path : Bytes) (cb : CbMode) (tt rt : Timeout)
  | push (src : LocalRef) (path : Bytes) (mode mtime : Nat) (cb : CbMode) (tt rt : Timeout)
  deriving Repr, Inhabited

def ApiOp.run : ApiOp → M Val
  | .connect keys tt authT rt cb => devConnect keys tt authT rt cb
  | .close => devClose
  | .shell cmd tt rt total dec => devShellLike "shell" (ascii "shell") cmd tt rt total dec
  | .execOut cmd tt rt total dec => devShellLike "exec_out" (ascii "exec") cmd tt rt total dec
  | .root tt rt total => devRoot tt rt total
  | .reboot fb tt rt total => devReboot fb tt rt total
  | .streamingShell cmd tt rt dec => devStreamingShell cmd tt rt dec
  | .list p tt rt => devList p tt rt
  | .stat p tt rt => devStat p tt rt
  | .pull p cb tt rt => devPull p cb tt rt
  | .push src p mode mtime cb tt rt => devPush src p mode mtime cb tt rt

/-- the operations that talk to the device over an established connection -/
def ApiOp.isStreamOp : ApiOp → Bool
  | .connect .. => false
  | .close => false
  | _ => true

/-- the device path argument, for the operations that take one -/
def ApiOp.devicePath : ApiOp → Option Bytes
  | .list p .. => some p
  | .stat p .. => some p
  | .pull p .. => some p
  | .push _ p .. => some p
  | _ => none

/-- run a history of API calls; exceptions are recorded, not propagated (the caller catches them) -/
def runHistory : List ApiOp → World → List (Except Err Val) × World
  | [], w => ([], w)
  | op :: ops, w =>
    let (r, w') := op.run w
    let (rs, w'') := runHistory ops w'
    (r :: rs, w'')

/-- specification of `available` over a history: true exactly from a successful connect() until the
    next close() or connect() attempt -/
def specAvailable : Bool → List (ApiOp × Except Err Val) → Bool
  | a, [] => a
  | a, (op, r) :: rest =>
    match op with
    | .connect .. => specAvailable (match r with | .ok _ => true | .error _ => false) rest
    | .close => specAvailable false rest
    | _ => specAvailable a rest

end Adb
