import AdbModel.Store
/-
  Abstract reading of the packet store: a finite map from (arg0, arg1) pairs to FIFO queues.
  `queue` is the abstraction function used by the C19 theorems; `pendingKeys`/`allowed` are the
  executable spec-side oracle the driver uses to validate the implementation's wildcard choices.
-/
namespace Adb
namespace Store

/-- the queue stored under the pair `(a0, a1)`; `none` = the store has no entry for the pair -/
def queue (s : Store) (a0 a1 : Nat) : Option (List QItem) := (alookup a1 s).bind (alookup a0)

/-- representation invariant: dict keys are unique at both levels and no inner dict is empty -/
def Inv (s : Store) : Prop :=
  (akeys s).Nodup ∧ ∀ p ∈ s, (akeys p.2).Nodup ∧ p.2 ≠ []

/-- all pairs that currently have a pending packet -/
def pendingKeys (s : Store) : List (Nat × Nat) :=
  s.flatMap (fun p => (p.2.filter (fun e => !e.2.isEmpty)).map (fun e => (e.1, p.1)))

/-- does the concrete pair match the lookup pattern (`none` = unknown id)? -/
def keyMatches (p0 p1 : Option Nat) (k : Nat × Nat) : Bool :=
  (match p0 with | none => true | some x => k.1 == x) && (match p1 with | none => true | some y => k.2 == y)

/-- with the legacy zero-id fallbacks: patterns (a0,a1), (a0,0), (0,a1), (0,0) -/
def keyMatchesZ (p0 p1 : Option Nat) (k : Nat × Nat) : Bool :=
  keyMatches p0 p1 k || keyMatches p0 (some 0) k || keyMatches (some 0) p1 k || keyMatches (some 0) (some 0) k

/-- the answers the specification allows for a lookup -/
def allowed (s : Store) (zeros : Bool) (p0 p1 : Option Nat) : List (Nat × Nat) :=
  (pendingKeys s).filter (if zeros then keyMatchesZ p0 p1 else keyMatches p0 p1)

end Store
end Adb

namespace Adb

/-- The abstract packet store of the C19 specification: per (arg0, arg1) pair an optional FIFO queue
    (`none` = the pair is unknown to the store). -/
abbrev AStore := Nat → Nat → Option (List QItem)

namespace AStore
def empty : AStore := fun _ _ => none
def put (a : AStore) (a0 a1 : Nat) (cmd : Cmd) (d : Bytes) : AStore :=
  if cmd = Cmd.CLSE ∧ a a0 a1 = none then a
  else fun b0 b1 => if b0 = a0 ∧ b1 = a1 then some ((a a0 a1).getD [] ++ [(cmd, d)]) else a b0 b1
def clear (a : AStore) (a0 a1 : Nat) : AStore :=
  fun b0 b1 => if b0 = a0 ∧ b1 = a1 then none else a b0 b1
/-- FIFO retrieval under exactly the given pair; retrieving the stream's CLSE forgets the pair -/
def get (a : AStore) (a0 a1 : Nat) : Except StoreErr ((Cmd × Nat × Nat × Bytes) × AStore) :=
  match a a0 a1 with
  | none => .error .keyError
  | some [] => .error .queueEmpty
  | some ((cmd, d) :: q) =>
    .ok ((cmd, a0, a1, d),
      fun b0 b1 => if b0 = a0 ∧ b1 = a1 then (if cmd = Cmd.CLSE then none else some q) else a b0 b1)
end AStore

/-- state-changing store operations with concrete pairs -/
inductive SOp where
  | put (a0 a1 : Nat) (cmd : Cmd) (d : Bytes)
  | get (a0 a1 : Nat)
  | clear (a0 a1 : Nat)
  | clearAll

abbrev SOut := Option (Except StoreErr (Cmd × Nat × Nat × Bytes))

def Store.stepOp (s : Store) : SOp → Store × SOut
  | .put a0 a1 c d => (s.put a0 a1 c d, none)
  | .get a0 a1 => match s.get (some a0) (some a1) with
    | .ok (r, s') => (s', some (.ok r))
    | .error e => (s, some (.error e))
  | .clear a0 a1 => (s.clear a0 a1, none)
  | .clearAll => ([], none)

def AStore.stepOp (a : AStore) : SOp → AStore × SOut
  | .put a0 a1 c d => (a.put a0 a1 c d, none)
  | .get a0 a1 => match a.get a0 a1 with
    | .ok (r, a') => (a', some (.ok r))
    | .error e => (a, some (.error e))
  | .clear a0 a1 => (a.clear a0 a1, none)
  | .clearAll => (AStore.empty, none)

def Store.runOps (s : Store) : List SOp → Store × List SOut
  | [] => (s, [])
  | op :: ops => let (s', o) := s.stepOp op; let (s'', os) := Store.runOps s' ops; (s'', o :: os)

def AStore.runOps (a : AStore) : List SOp → AStore × List SOut
  | [] => (a, [])
  | op :: ops => let (a', o) := a.stepOp op; let (a'', os) := AStore.runOps a' ops; (a'', o :: os)

end Adb
