import AdbModel.Message
/-
  C04 — the per-stream protocol monitor, executable.  A line-by-line transcription of `_monitor` in
  harness/oracles.py: it consumes the ordered packet log of one connection (who sent it, command,
  arg0, arg1, payload) and reports every violation of the ADB stream protocol by the HOST, in the
  order the Python function appends its messages.  Streams are keyed by the host's local id; device
  packets find their stream through arg1, device packets of unknown streams are skipped.
  No Mathlib here: the driver executable links this module.
-/
namespace Adb.Monitor

/-- one entry of the packet log: `("host"|"dev", cmd, arg0, arg1, data)` -/
structure Ev where
  fromHost : Bool
  cmd : Cmd
  arg0 : Nat
  arg1 : Nat
  data : Bytes
  deriving DecidableEq, Repr, Inhabited

/-- the per-stream state dict of the Python monitor (`okays_to_answer` is never read there and is left out) -/
structure St where
  remote : Option Nat := none        -- the remote id the device announced in its first OKAY
  owed : Int := 0                    -- device WRTEs seen minus host OKAYs sent
  hostWrteInflight : Bool := false   -- a host WRTE is waiting for the device's OKAY
  hostClosed : Bool := false
  devClosed : Bool := false
  done : Bool := false               -- closed by both sides: the local id may be reused
  deriving DecidableEq, Repr, Inhabited

/-- one constructor per message of the Python monitor -/
inductive Viol where
  | openMalformed     -- "OPEN(..) malformed"
  | openReusesLive    -- "OPEN reuses live local id .."
  | unknownStream     -- ".. on unknown stream .."
  | wrongRemote       -- ".. carries remote id .., the device announced .."
  | afterClose        -- ".. sent on stream .. after its CLOSE"
  | spuriousOkay      -- "spurious OKAY on stream .."
  | secondWrte        -- "second WRTE on stream .. before the previous one was acknowledged"
  deriving DecidableEq, Repr, Inhabited

def Viol.name : Viol → String
  | .openMalformed => "openMalformed" | .openReusesLive => "openReusesLive" | .unknownStream => "unknownStream"
  | .wrongRemote => "wrongRemote" | .afterClose => "afterClose" | .spuriousOkay => "spuriousOkay"
  | .secondWrte => "secondWrte"

/-- `cmd in (b"OKAY", b"WRTE", b"CLSE")` -/
def isStreamCmd : Cmd → Bool
  | .OKAY | .WRTE | .CLSE => true
  | _ => false

/-- `d.endswith(b"\0")` -/
def endsWithNul (d : Bytes) : Bool := d.getLast? == some 0

/-- `a0 == 0 or a0 >= 2 ** 32 or a1 != 0 or not d.endswith(b"\0")` -/
def openMalformed (a0 a1 : Nat) (d : Bytes) : Bool :=
  a0 == 0 || decide (a0 ≥ 4294967296) || a1 != 0 || !endsWithNul d

/-- the state a stream starts in when the host sends its OPEN -/
def St.fresh : St := {}

/-- the body of the `host` branch for OKAY / WRTE / CLSE once the stream's state `st` was found;
    `a1` is the packet's arg1.  Violations in the order Python appends them. -/
def hostStep (st : St) (cmd : Cmd) (a1 : Nat) : St × List Viol :=
  let v1 : List Viol := match st.remote with
    | some r => if a1 ≠ r then [.wrongRemote] else []
    | none => []
  let v2 : List Viol := if st.hostClosed then [.afterClose] else []
  match cmd with
  | .OKAY => ({ st with owed := st.owed - 1 }, v1 ++ v2 ++ (if st.owed ≤ 0 then [.spuriousOkay] else []))
  | .WRTE => ({ st with hostWrteInflight := true }, v1 ++ v2 ++ (if st.hostWrteInflight then [.secondWrte] else []))
  | .CLSE => ({ st with hostClosed := true, done := st.done || st.devClosed }, v1 ++ v2)
  | _ => (st, [])

/-- the body of the `dev` branch for OKAY / WRTE / CLSE once the stream's state `st` was found;
    `a0` is the packet's arg0 -/
def devStep (st : St) (cmd : Cmd) (a0 : Nat) : St :=
  match cmd with
  | .OKAY => { st with remote := (match st.remote with | none => some a0 | some r => some r), hostWrteInflight := false }
  | .WRTE => { st with owed := st.owed + 1 }
  | .CLSE => { st with devClosed := true, done := st.done || st.hostClosed }
  | _ => st

/-- the stream table: local id ↦ state (a Python dict) -/
abbrev Table := List (Nat × St)

/-- one iteration of `for who, cmd, a0, a1, d in plog:` -/
def step (S : Table) (ev : Ev) : Table × List Viol :=
  if ev.fromHost then
    if ev.cmd = Cmd.OPEN then
      let v1 : List Viol := if openMalformed ev.arg0 ev.arg1 ev.data then [.openMalformed] else []
      let v2 : List Viol := match alookup ev.arg0 S with
        | some st => if !st.done then [.openReusesLive] else []
        | none => []
      (aset ev.arg0 St.fresh S, v1 ++ v2)
    else if isStreamCmd ev.cmd then
      match alookup ev.arg0 S with
      | none => (S, [.unknownStream])
      | some st =>
        let (st', v) := hostStep st ev.cmd ev.arg1
        (aset ev.arg0 st' S, v)
    else (S, [])
  else
    if isStreamCmd ev.cmd then
      match alookup ev.arg1 S with
      | none => (S, [])               -- foreign traffic
      | some st => (aset ev.arg1 (devStep st ev.cmd ev.arg0) S, [])
    else (S, [])

/-- the loop, started from the stream table `S`: final table and the violations in order -/
def run (S : Table) : List Ev → Table × List Viol
  | [] => (S, [])
  | ev :: rest =>
    let (S1, v1) := step S ev
    let (S2, v2) := run S1 rest
    (S2, v1 ++ v2)

/-- `_monitor(plog)` -/
def check (log : List Ev) : List Viol := (run [] log).2

def ok (log : List Ev) : Bool := (check log).isEmpty

end Adb.Monitor
