import AdbModel.Stream
/-
  FileSync: _filesync_flush (F5 repair), _filesync_send, _filesync_read_buffered, _filesync_read,
  _filesync_read_until, list, stat, pull/_pull, push/_push (F2, F4 repairs), get_files_to_push,
  max_chunk_size.
-/
namespace Adb

/-- `_filesync_flush`: send the buffered records as one WRTE, wait for its OKAY; device WRTEs that
    arrive first are kept in the receive buffer (F5). -/
def fsFlushLoop (t : Txn) : Nat → FsInfo → M FsInfo
  | 0, _ => M.throw .hang
  | fuel + 1, fi => do
    let (cmd, data) ← readUntil [.OKAY, .WRTE] t
    if cmd = Cmd.OKAY then pure { fi with sendBuf := [] }
    else fsFlushLoop t fuel { fi with recvBuf := fi.recvBuf ++ data }

def fsFlush (t : Txn) (fi : FsInfo) : M FsInfo := do
  ioSend ⟨.WRTE, t.localId.getD 0, t.remoteId.getD 0, fi.sendBuf⟩ t
  let w ← M.get
  fsFlushLoop t w.fuel fi

/-- `_filesync_send(command_id, adb_info, filesync_info, data, size)` -/
def fsSend (id : SyncId) (t : Txn) (fi : FsInfo) (data : Bytes) (size : Option Nat := none) : M FsInfo := do
  let size := size.getD data.length
  let fi ← if !fi.canAdd data.length then fsFlush t fi else pure fi
  if size ≥ 4294967296 then M.throw .pyStructError
  pure { fi with sendBuf := fi.sendBuf ++ le32 id.wire ++ le32 size ++ data }

/-- `_filesync_read_buffered(size, adb_info, filesync_info)` -/
def fsReadBufferedLoop (size : Nat) (t : Txn) : Nat → FsInfo → M (Bytes × FsInfo)
  | 0, _ => M.throw .hang
  | fuel + 1, fi =>
    if fi.recvBuf.length < size then do
      let (_, data) ← readUntil [.WRTE] t
      fsReadBufferedLoop size t fuel { fi with recvBuf := fi.recvBuf ++ data }
    else pure (fi.recvBuf.take size, { fi with recvBuf := fi.recvBuf.drop size })

def fsReadBuffered (size : Nat) (t : Txn) (fi : FsInfo) : M (Bytes × FsInfo) := do
  let w ← M.get
  fsReadBufferedLoop size t w.fuel fi

/-- `struct.unpack('<nI', bs)` for a buffer of exactly 4n bytes -/
def unpackWords : Nat → Bytes → List Nat
  | 0, _ => []
  | n + 1, bs => match rd32 bs with
    | some (v, rest) => v :: unpackWords n rest
    | none => []

structure SyncRec where
  id : SyncId
  fields : List Nat     -- header[1:-1], or header[1:] for STAT
  data : Option Bytes   -- None for STAT
  deriving Repr, Inhabited, DecidableEq

/-- `_filesync_read(expected_ids, adb_info, filesync_info)` -/
def fsRead (expected : List SyncId) (t : Txn) (fi : FsInfo) : M (SyncRec × FsInfo) := do
  let fi ← if !fi.sendBuf.isEmpty then fsFlush t fi else pure fi
  let (hdrBytes, fi) ← fsReadBuffered fi.fmt.size t fi
  let header := unpackWords (fi.fmt.size / 4) hdrBytes
  match SyncId.ofWire? (header.headD 0) with
  | none => M.throw .pyKeyError
  | some cid =>
    let readData := cid ≠ SyncId.STAT
    let (data, fi) ← if readData then fsReadBuffered (header.getLastD 0) t fi else pure ([], fi)
    if !expected.contains cid then
      if cid = SyncId.FAIL then M.throw (.adbCommandFailure data)
      else M.throw .invalidResponse
    if !readData then pure (⟨cid, header.drop 1, none⟩, fi)
    else pure (⟨cid, (header.drop 1).dropLast, some data⟩, fi)

def maxChunkSize (maxdata : Nat) : Nat :=
  let m := min Generated.MAX_CHUNK_SIZE (maxdata / 2)
  if m = 0 then Generated.MAX_PUSH_DATA else m

/-- decimal digits of `int(st_mode)` -/
def decimal (n : Nat) : Bytes := ascii (toString n)

def lookupFile (id : Nat) : M Bytes := fun w =>
  match w.files.find? (·.1 == id) with
  | some (_, c) => (.ok c, w)
  | none => (.error .localFileError, w)

inductive CbMode where
  | none      -- no progress callback
  | count     -- records its calls
  | raise     -- records its calls and raises
  deriving DecidableEq, Repr, Inhabited

def callProgress (cb : CbMode) (path : Bytes) (n total : Nat) : M Unit :=
  match cb with
  | .none => pure ()
  | _ => M.swallow (do emit (.cbProgress path n total); if cb = CbMode.raise then M.throw .pyValueError)

/-- the `while True: data = stream.read(max_chunk_size)` loop of `_push` -/
def pushDataLoop (devPath : Bytes) (cb : CbMode) (total chunk : Nat) (t : Txn) : Nat → Bytes → FsInfo → M FsInfo
  | 0, _, _ => M.throw .hang
  | fuel + 1, content, fi =>
    let data := content.take chunk
    if data.isEmpty then pure fi else do
      let fi ← fsSend .DATA t fi data
      callProgress cb devPath data.length total
      pushDataLoop devPath cb total chunk t fuel (content.drop chunk) fi

/-- `_filesync_read_until([], [OKAY, FAIL], …)` as consumed by `_push` -/
def pushStatus (t : Txn) (fi : FsInfo) : M Unit := do
  let (r, _) ← fsRead [.OKAY, .FAIL] t fi
  if r.id = SyncId.OKAY then pure () else M.throw (.pushFailed (r.data.getD []))

/-- `_push(stream, device_path, st_mode, mtime, progress_callback, adb_info, filesync_info)` -/
def pushOne (content devPath : Bytes) (mode mtime : Nat) (cb : CbMode) (t : Txn) (fi : FsInfo) : M Unit := do
  let fi ← fsSend .SEND t fi (devPath ++ [44] ++ decimal mode)
  let w ← M.get
  let chunk := maxChunkSize w.maxdata
  let fi ← pushDataLoop devPath cb content.length chunk t w.fuel content fi
  let w ← M.get
  let mtime' := if mtime = 0 then (w.now / 1024).toNat else mtime
  let fi ← fsSend .DONE t fi [] (some mtime')
  pushStatus t fi

end Adb
