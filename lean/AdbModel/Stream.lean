import AdbModel.Wire
import AdbModel.Utf8
/-
  AdbDevice stream layer: _open, _okay, _clse, _read_until, _read_until_close, _streaming_command,
  _service, _streaming_service.
-/
namespace Adb

def getTT (tt : Timeout) : M Timeout := fun w => (.ok (if tt.isSome then tt else w.defaultTT), w)

/-- `nextId`: `self._local_id += 1; if self._local_id == 2**32: self._local_id = 1` -/
def nextId (c : Nat) : Nat := if c + 1 = 4294967296 then 1 else c + 1

/-- `_open(destination, transport_timeout_s, read_timeout_s, timeout_s)` -/
def openStream (dest : Bytes) (tt rt total : Timeout) : M Txn := do
  let t ← withLock lockLocalId do
    M.modify fun w => { w with localId := nextId w.localId }
    let w ← M.get
    let tt' ← getTT tt
    liftExcept (Txn.make (some w.localId) none tt' rt total)
  ioSend ⟨.OPEN, t.localId.getD 0, 0, dest ++ [0]⟩ t
  let p ← ioRead [.OKAY] t
  pure { t with remoteId := some p.arg0 }

/-- `_okay(adb_info)` -/
def okay (t : Txn) : M Unit := ioSend ⟨.OKAY, t.localId.getD 0, t.remoteId.getD 0, []⟩ t

/-- `_read_until(expected_cmds, adb_info)` -/
def readUntil (expected : List Cmd) (t : Txn) : M (Cmd × Bytes) := do
  let p ← ioRead expected t true
  if p.cmd = Cmd.WRTE then okay t
  pure (p.cmd, p.data)

/-- `_clse(adb_info)` -/
def clse (t : Txn) : M Unit := do
  ioSend ⟨.CLSE, t.localId.getD 0, t.remoteId.getD 0, []⟩ t
  let _ ← readUntil [.CLSE] t

/-- `_read_until_close(adb_info)`; every yielded item is recorded as a `yielded` event (so the items
    produced before an exception remain observable) and also returned. -/
def readUntilCloseLoop (t : Txn) (start : Int) : Nat → List Bytes → M (List Bytes)
  | 0, _ => M.throw .hang
  | fuel + 1, acc => do
    let (cmd, data) ← readUntil [.CLSE, .WRTE] t
    if cmd = Cmd.CLSE then do
      ioSend ⟨.CLSE, t.localId.getD 0, t.remoteId.getD 0, []⟩ t
      pure acc.reverse
    else do
      emit (.yielded data)
      match t.total with
      | none => readUntilCloseLoop t start fuel (data :: acc)
      | some _ =>
        if (← elapsedGt start t.total) then M.throw .adbTimeout
        readUntilCloseLoop t start fuel (data :: acc)

def readUntilClose (t : Txn) : M (List Bytes) := do
  let start ← now
  let w ← M.get
  readUntilCloseLoop t start w.fuel []

/-- `_streaming_command(service, command, …)` fully consumed -/
def streamingCommand (service command : Bytes) (tt rt total : Timeout) : M (List Bytes) := do
  let t ← openStream (service ++ [58] ++ command) tt rt total
  readUntilClose t

inductive Item where
  | bytes (b : Bytes)
  | str (cps : List Nat)
  deriving Repr, Inhabited, DecidableEq

inductive Val where
  | none
  | bool (b : Bool)
  | bytes (b : Bytes)
  | str (cps : List Nat)                       -- a Python str as code points
  | items (xs : List Item)
  | listing (es : List (Bytes × Nat × Nat × Nat))   -- (filename, mode, size, mtime)
  | stat (mode size mtime : Nat)
  deriving Repr, Inhabited, DecidableEq

/-- `_service(service, command, …, decode)` -/
def service (svc command : Bytes) (tt rt total : Timeout) (decode : Bool) : M Val := do
  let items ← streamingCommand svc command tt rt total
  let joined := items.flatten
  pure (if decode then .str (Utf8.decodeBS joined) else .bytes joined)

/-- `_streaming_service` fully consumed -/
def streamingService (svc command : Bytes) (tt rt : Timeout) (decode : Bool) : M Val := do
  let items ← streamingCommand svc command tt rt none
  pure (.items (items.map fun d => if decode then .str (Utf8.decodeBS d) else .bytes d))

end Adb
