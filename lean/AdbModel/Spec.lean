import AdbModel.FileSync
/-
  Executable SPECIFICATION functions, used by the driver as oracles on the IMPLEMENTATION's observed
  runs ("the property, evaluated by Lean on what the real code did").  They are the reference
  semantics the theorems are stated against: `AdbProofs/Properties/SpecTie.lean` proves them equal to
  the functions used in the theorem statements (`E2E.streamItems`, `SR.parse`, `Push.chunksOf`).
-/
namespace Adb
namespace Spec

/-- `args_match(…, allow_zeros=True)` for the stream `(l, r)` -/
def mine (l r : Nat) (p : Pkt) : Bool := (p.arg1 == 0 || p.arg1 == l) && (p.arg0 == 0 || p.arg0 == r)

/-- payloads of this stream's WRTEs up to its first CLSE, and the packets after that CLSE -/
def closeItems (l r : Nat) : List Pkt → Option (List Bytes × List Pkt)
  | [] => none
  | p :: ps =>
    if mine l r p && p.cmd == .CLSE then some ([], ps)
    else match closeItems l r ps with
      | none => none
      | some (ds, rest) => some (if mine l r p && p.cmd == .WRTE then p.data :: ds else ds, rest)

/-- C01: what a shell/exec_out/streaming_shell with new local id `l` must return, given the packets the device sent -/
def streamItems (l : Nat) : List Pkt → Option (List Bytes × List Pkt)
  | [] => none
  | p :: ps => if p.arg1 == l && p.cmd == .OKAY then closeItems l p.arg0 ps else streamItems l ps

inductive Parsed where
  | more
  | badId (word : Nat)
  | record (r : SyncRec) (rest : Bytes)
  deriving DecidableEq, Repr

/-- one FileSync record of receive format `fmt` at the head of `bs` -/
def parse (fmt : SyncFmt) (bs : Bytes) : Parsed :=
  if bs.length < fmt.size then .more
  else
    let header := unpackWords (fmt.size / 4) (bs.take fmt.size)
    let body := bs.drop fmt.size
    match SyncId.ofWire? (header.headD 0) with
    | none => .badId (header.headD 0)
    | some cid =>
      if cid = SyncId.STAT then .record ⟨cid, header.drop 1, none⟩ body
      else if body.length < header.getLastD 0 then .more
      else .record ⟨cid, (header.drop 1).dropLast, some (body.take (header.getLastD 0))⟩ (body.drop (header.getLastD 0))

/-- C08/C09: the records of the reassembled reply up to and including the first one whose id is in `stop` -/
def records (fmt : SyncFmt) (stop : List SyncId) : Nat → Bytes → List SyncRec
  | 0, _ => []
  | fuel + 1, bs =>
    match parse fmt bs with
    | .record r rest => if stop.contains r.id then [r] else r :: records fmt stop fuel rest
    | _ => []

/-- C07: the DATA chunks of a push -/
def chunksOfAux (k : Nat) : Nat → Bytes → List Bytes
  | 0, _ => []
  | fuel + 1, content =>
    if (content.take k).isEmpty then [] else content.take k :: chunksOfAux k fuel (content.drop k)

def chunksOf (k : Nat) (content : Bytes) : List Bytes := chunksOfAux k content.length content

end Spec
end Adb
