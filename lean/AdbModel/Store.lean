import AdbModel.Message
/-
  hidden_helpers._AdbPacketStore, transcribed branch for branch.
  `_dict : {arg1: {arg0: Queue}}` becomes insertion-ordered nested association lists (Python dict order
  is observable through the wildcard `find`). Empty queues persist, as `Queue` objects do.
-/
namespace Adb

abbrev QItem := Cmd × Bytes
abbrev Inner := List (Nat × List QItem)      -- arg0 ↦ queue
abbrev Store := List (Nat × Inner)           -- arg1 ↦ inner

inductive StoreErr where
  | typeError      -- `arg0, arg1 = None` unpack in `get` after a failed wildcard `find`
  | keyError       -- `self._dict[arg1][arg0]` on a missing key
  | queueEmpty     -- `get_nowait()` on an empty queue
  deriving DecidableEq, Repr

namespace Store

def empty : Store := []

/-- `clear(arg0, arg1)` -/
def clear (s : Store) (a0 a1 : Nat) : Store :=
  match alookup a1 s with
  | none => s
  | some inner =>
    match alookup a0 inner with
    | none => s
    | some _ =>
      let inner' := adel a0 inner
      if inner'.isEmpty then adel a1 s else aset a1 inner' s

def clearAll (_ : Store) : Store := []

/-- first `(key0, key1)` in nested dict order whose queue is non-empty and whose `key0` passes `p` -/
def firstNonEmptyInner (p : Nat → Bool) : Inner → Option Nat
  | [] => none
  | (k0, q) :: rest => if p k0 && !q.isEmpty then some k0 else firstNonEmptyInner p rest

def firstNonEmpty (p : Nat → Bool) : Store → Option (Nat × Nat)
  | [] => none
  | (k1, inner) :: rest =>
    match firstNonEmptyInner p inner with
    | some k0 => some (k0, k1)
    | none => firstNonEmpty p rest

/-- `find(arg0, arg1)` with `None` as `none` -/
def find (s : Store) (a0 a1 : Option Nat) : Option (Nat × Nat) :=
  if s.isEmpty then none else
  match a1 with
  | none =>
    match a0 with
    | none => firstNonEmpty (fun _ => true) s
    | some x => firstNonEmpty (fun k0 => k0 == x) s
  | some y =>
    match alookup y s with
    | none => none
    | some inner =>
      match a0 with
      | none => (firstNonEmptyInner (fun _ => true) inner).map (fun k0 => (k0, y))
      | some x =>
        match alookup x inner with
        | some q => if q.isEmpty then none else some (x, y)
        | none => none

/-- `find_allow_zeros(arg0, arg1)` -/
def findAllowZeros (s : Store) (a0 a1 : Option Nat) : Option (Nat × Nat) :=
  match find s a0 a1 with
  | some k => some k
  | none => match find s a0 (some 0) with
    | some k => some k
    | none => match find s (some 0) a1 with
      | some k => some k
      | none => find s (some 0) (some 0)

/-- `get(arg0, arg1)` -/
def get (s : Store) (a0 a1 : Option Nat) : Except StoreErr ((Cmd × Nat × Nat × Bytes) × Store) :=
  let key : Option (Nat × Nat) :=
    match a0, a1 with
    | some x, some y => some (x, y)
    | _, _ => find s a0 a1
  match key with
  | none => .error .typeError
  | some (x, y) =>
    match alookup y s with
    | none => .error .keyError
    | some inner =>
      match alookup x inner with
      | none => .error .keyError
      | some [] => .error .queueEmpty
      | some ((cmd, data) :: q) =>
        let s' := aset y (aset x q inner) s
        let s'' := if cmd = Cmd.CLSE then clear s' x y else s'
        .ok ((cmd, x, y, data), s'')

/-- `put(arg0, arg1, cmd, data)` -/
def put (s : Store) (a0 a1 : Nat) (cmd : Cmd) (data : Bytes) : Store :=
  match alookup a1 s with
  | some inner =>
    match alookup a0 inner with
    | none =>
      if cmd = Cmd.CLSE then s
      else aset a1 (aset a0 [(cmd, data)] inner) s
    | some q => aset a1 (aset a0 (q ++ [(cmd, data)]) inner) s
  | none =>
    if cmd = Cmd.CLSE then s
    else aset a1 [(a0, [(cmd, data)])] s

/-- `len(store)` -/
def len (s : Store) : Nat :=
  (s.map (fun (_, inner) => (inner.filter (fun (_, q) => !q.isEmpty)).length)).sum

/-- `(a0, a1) in store` -/
def contains (s : Store) (a0 a1 : Option Nat) : Bool := (find s a0 a1).isSome

end Store
end Adb
