import AdbModel.Basic
import AdbModel.Generated.Constants
/-
  ADB command ids (`constants.IDS`) and FileSync ids (`constants.FILESYNC_IDS`), with their wire
  encodings recomputed in Lean (`sum(c << (i * 8) for i, c in enumerate(bytearray(cmd_id)))`).
  `AdbProofs/Properties/C02.lean` proves these equal the tables generated from the source.
-/
namespace Adb

inductive Cmd where
  | AUTH | CLSE | CNXN | OKAY | OPEN | SYNC | WRTE
  deriving DecidableEq, Repr, Inhabited

def Cmd.all : List Cmd := [.AUTH, .CLSE, .CNXN, .OKAY, .OPEN, .SYNC, .WRTE]

def Cmd.name : Cmd → String
  | .AUTH => "AUTH" | .CLSE => "CLSE" | .CNXN => "CNXN" | .OKAY => "OKAY"
  | .OPEN => "OPEN" | .SYNC => "SYNC" | .WRTE => "WRTE"

def Cmd.ofName? (s : String) : Option Cmd := Cmd.all.find? (fun c => c.name == s)

/-- little-endian value of the first four bytes -/
def wireOfBytes : Bytes → Nat
  | [] => 0
  | b :: bs => b.toNat + 256 * wireOfBytes bs

def Cmd.wire (c : Cmd) : Nat := wireOfBytes (ascii c.name)

/-- `constants.WIRE_TO_ID.get(n)` -/
def Cmd.ofWire? (n : Nat) : Option Cmd := Cmd.all.find? (fun c => c.wire == n)

inductive SyncId where
  | DATA | DENT | DONE | FAIL | LIST | OKAY | QUIT | RECV | SEND | STAT
  deriving DecidableEq, Repr, Inhabited

def SyncId.all : List SyncId := [.DATA, .DENT, .DONE, .FAIL, .LIST, .OKAY, .QUIT, .RECV, .SEND, .STAT]

def SyncId.name : SyncId → String
  | .DATA => "DATA" | .DENT => "DENT" | .DONE => "DONE" | .FAIL => "FAIL" | .LIST => "LIST"
  | .OKAY => "OKAY" | .QUIT => "QUIT" | .RECV => "RECV" | .SEND => "SEND" | .STAT => "STAT"

def SyncId.ofName? (s : String) : Option SyncId := SyncId.all.find? (fun c => c.name == s)
def SyncId.wire (c : SyncId) : Nat := wireOfBytes (ascii c.name)
def SyncId.ofWire? (n : Nat) : Option SyncId := SyncId.all.find? (fun c => c.wire == n)

end Adb
