import AdbModel.Py
/-
  Canonical text form of `Py.Val` / results, used only by the translator validation run
  (harness/units/srccheck.py executes the GENERATED definitions on sample inputs with `lake env lean --run`
  and compares this text with what the real Python functions return). Not used by any proof.
-/
namespace Adb.Py

def hexDigit (n : Nat) : Char := if n < 10 then Char.ofNat (48 + n) else Char.ofNat (87 + n)
def hexOf (b : List UInt8) : String :=
  if b.isEmpty then "-" else String.ofList (b.flatMap (fun x => [hexDigit (x.toNat / 16), hexDigit (x.toNat % 16)]))

def Key.show : Key → String
  | .none => "None"
  | .int i => toString i
  | .bytes b => "b:" ++ hexOf b
  | .str s => "s:" ++ s

partial def Val.show : Val → String
  | .none => "None"
  | .bool b => if b then "True" else "False"
  | .int i => toString i
  | .bytes b => "b:" ++ hexOf b
  | .bytearray b => "ba:" ++ hexOf b
  | .str s => "s:" ++ s
  | .tuple l => "(" ++ ",".intercalate (l.map Val.show) ++ ")"
  | .list l => "[" ++ ",".intercalate (l.map Val.show) ++ "]"
  | .dict l => "{" ++ ",".intercalate (l.map (fun kv => kv.1.show ++ ":" ++ kv.2.show)) ++ "}"
  | .queue l => "Q[" ++ ",".intercalate (l.map Val.show) ++ "]"
  | .obj c fs =>
      let sorted := (fs.toArray.qsort (fun a b => a.1 < b.1)).toList
      "<" ++ c ++ " " ++ ",".intercalate (sorted.map (fun kv => kv.1 ++ "=" ++ kv.2.show)) ++ ">"

def Err.show : Err → String
  | .typeError => "TypeError" | .keyError => "KeyError" | .indexError => "IndexError" | .queueEmpty => "Empty"
  | .attributeError => "AttributeError" | .valueError => "ValueError" | .structError => "StructError" | .overflowError => "OverflowError" | .adbTimeout => "AdbTimeoutError" | .invalidCommand => "InvalidCommandError" | .invalidChecksum => "InvalidChecksumError" | .adbCommandFailure => "AdbCommandFailureException" | .invalidResponse => "InvalidResponseError" | .unsupported => "UNSUPPORTED"

def showM (r : M Val) : String :=
  match r with
  | .ok v => "ok " ++ v.show
  | .error e => "err " ++ e.show

def showM2 (r : M (Val × Val)) : String :=
  match r with
  | .ok (v, s) => "ok " ++ v.show ++ " | " ++ s.show
  | .error e => "err " ++ e.show

end Adb.Py
