import AdbModel.Basic
/-
  A small value-level semantics of the Python subset that adb_shell's PURE helpers are written in
  (hidden_helpers._AdbTransactionInfo / _FileSyncTransactionInfo / _AdbPacketStore, adb_message.py,
  AdbDevice.max_chunk_size). `harness/pytrans.py` translates the CURRENT source of those functions into
  Lean definitions over these operations on every run (`AdbModel/Generated/Src.lean`); the theorems in
  `AdbProofs/Properties/*Src.lean` prove those generated definitions equal to the hand-written model for
  all inputs, so the hand model of these functions is tied to the code by proof, not by sampling.

  What is trusted here: that the operations below say what CPython does for the value kinds they accept
  (ints, bools, None, bytes, bytearray, str, tuples, lists, insertion-ordered dicts with scalar keys,
  `queue.Queue` used through put_nowait/get_nowait/empty, plain objects with attributes). Anything outside
  the subset is `Err.unsupported`, never a guess. Mutation is by path from a root variable; the translator
  rejects code that mutates through an alias. No Mathlib (linked into the driver).
-/
namespace Adb.Py

/-- hashable scalars used as dict keys (`True`/`False` hash as 1/0) -/
inductive Key where
  | none
  | int (i : Int)
  | bytes (b : List UInt8)
  | str (s : String)
  deriving DecidableEq, Repr, Inhabited

inductive Val where
  | none
  | bool (b : Bool)
  | int (i : Int)
  | bytes (b : List UInt8)
  | bytearray (b : List UInt8)
  | str (s : String)
  | tuple (l : List Val)
  | list (l : List Val)
  | dict (l : List (Key × Val))          -- insertion ordered
  | queue (l : List Val)                 -- queue.Queue(): FIFO, oldest first
  | obj (cls : String) (fields : List (String × Val))
  deriving Inhabited

inductive Err where
  | typeError | keyError | indexError | queueEmpty | attributeError | valueError | structError | overflowError | adbTimeout | invalidCommand | invalidChecksum | adbCommandFailure | invalidResponse | unsupported
  deriving DecidableEq, Repr, Inhabited

abbrev M := Except Err

def Key.toVal : Key → Val
  | .none => .none
  | .int i => .int i
  | .bytes b => .bytes b
  | .str s => .str s

/-- `hash`/`==` class of a value used as a dict key; unhashable values raise TypeError -/
def toKey : Val → M Key
  | .none => pure .none
  | .bool b => pure (.int (if b then 1 else 0))
  | .int i => pure (.int i)
  | .bytes b => pure (.bytes b)
  | .str s => pure (.str s)
  | .bytearray _ => throw .typeError
  | .list _ => throw .typeError
  | .dict _ => throw .typeError
  | _ => throw .unsupported

/-- truth value (`bool(x)`, `if x`, `not x`) -/
def truthy : Val → M Bool
  | .none => pure false
  | .bool b => pure b
  | .int i => pure (i != 0)
  | .bytes b => pure (!b.isEmpty)
  | .bytearray b => pure (!b.isEmpty)
  | .str s => pure (s != "")
  | .tuple l => pure (!l.isEmpty)
  | .list l => pure (!l.isEmpty)
  | .dict l => pure (!l.isEmpty)
  | .queue _ => pure true            -- queue.Queue defines neither __bool__ nor __len__
  | .obj _ _ => throw .unsupported   -- classes with __len__ (the packet store) are never tested for truth in the subset

def isNone : Val → Bool
  | .none => true
  | _ => false

def not_ (v : Val) : M Val := do pure (.bool (!(← truthy v)))

/-- `a == b` for scalars (bool counts as int; bytes and bytearray compare by content; different kinds are unequal) -/
def eq : Val → Val → M Bool
  | .none, .none => pure true
  | .bool a, .bool b => pure (a == b)
  | .bool a, .int b => pure ((if a then 1 else 0) == b)
  | .int a, .bool b => pure (a == (if b then 1 else 0))
  | .int a, .int b => pure (a == b)
  | .bytes a, .bytes b => pure (a == b)
  | .bytes a, .bytearray b => pure (a == b)
  | .bytearray a, .bytes b => pure (a == b)
  | .bytearray a, .bytearray b => pure (a == b)
  | .str a, .str b => pure (a == b)
  | .tuple _, _ => throw .unsupported
  | _, .tuple _ => throw .unsupported
  | .list _, _ => throw .unsupported
  | _, .list _ => throw .unsupported
  | .dict _, _ => throw .unsupported
  | _, .dict _ => throw .unsupported
  | .queue _, _ => throw .unsupported
  | _, .queue _ => throw .unsupported
  | .obj _ _, _ => throw .unsupported
  | _, .obj _ _ => throw .unsupported
  | _, _ => pure false

def eqV (a b : Val) : M Val := do pure (.bool (← eq a b))
def neV (a b : Val) : M Val := do pure (.bool (!(← eq a b)))
def isV (a b : Val) : M Val :=
  match a, b with
  | .none, .none => pure (.bool true)
  | .none, _ => pure (.bool false)
  | _, .none => pure (.bool false)
  | _, _ => throw .unsupported        -- identity is only used against None in the subset
def isNotV (a b : Val) : M Val := do
  match (← isV a b) with
  | .bool t => pure (.bool (!t))
  | _ => throw .unsupported

/-! ### dicts (insertion ordered association lists) -/

def dlookup (k : Key) : List (Key × Val) → Option Val
  | [] => Option.none
  | (k', v) :: rest => if k' = k then some v else dlookup k rest

def dset (k : Key) (v : Val) : List (Key × Val) → List (Key × Val)
  | [] => [(k, v)]
  | (k', v') :: rest => if k' = k then (k', v) :: rest else (k', v') :: dset k v rest

def ddel (k : Key) : List (Key × Val) → List (Key × Val)
  | [] => []
  | (k', v') :: rest => if k' = k then rest else (k', v') :: ddel k rest

def anyEq (x : Val) : List Val → M Bool
  | [] => pure false
  | y :: ys => do if (← eq x y) then pure true else anyEq x ys

/-- `x in c` -/
def contains (c x : Val) : M Bool :=
  match c with
  | .dict l => do pure ((dlookup (← toKey x) l).isSome)
  | .tuple l => anyEq x l
  | .list l => anyEq x l
  | _ => throw .unsupported

/-- `d.get(k)` (None when the key is missing) -/
def dictGet (d k : Val) : M Val :=
  match d with
  | .dict l => do
      match dlookup (← toKey k) l with
      | some v => pure v
      | Option.none => pure .none
  | _ => throw .unsupported

def inV (x c : Val) : M Val := do pure (.bool (← contains c x))
def notInV (x c : Val) : M Val := do pure (.bool (!(← contains c x)))

/-- `c[k]` -/
def getItem (c k : Val) : M Val :=
  match c with
  | .dict l => do
      match dlookup (← toKey k) l with
      | some v => pure v
      | Option.none => throw .keyError
  | .tuple l | .list l =>
      match k with
      | .int i => if 0 ≤ i then (match l[i.toNat]? with | some v => pure v | Option.none => throw .indexError) else throw .unsupported
      | _ => throw .typeError
  | .bytes b | .bytearray b =>
      match k with
      | .int i => if 0 ≤ i then (match b[i.toNat]? with | some v => pure (.int v.toNat) | Option.none => throw .indexError) else throw .unsupported
      | _ => throw .typeError
  | _ => throw .unsupported

def alookupS (k : String) : List (String × Val) → Option Val
  | [] => Option.none
  | (k', v) :: rest => if k' = k then some v else alookupS k rest

def asetS (k : String) (v : Val) : List (String × Val) → List (String × Val)
  | [] => [(k, v)]
  | (k', v') :: rest => if k' = k then (k', v) :: rest else (k', v') :: asetS k v rest

def getAttr (o : Val) (name : String) : M Val :=
  match o with
  | .obj _ fs => match alookupS name fs with
    | some v => pure v
    | Option.none => throw .attributeError
  | _ => throw .unsupported

def setAttr (o : Val) (name : String) (v : Val) : M Val :=
  match o with
  | .obj c fs => pure (.obj c (asetS name v fs))
  | _ => throw .unsupported

/-- one step of an lvalue path: `.name` or `[key]` -/
inductive Acc where
  | attr (name : String)
  | idx (k : Val)
  deriving Inhabited

def getAcc (v : Val) : Acc → M Val
  | .attr n => getAttr v n
  | .idx k => getItem v k

/-- `root.a[b][c]` -/
def getPath (v : Val) : List Acc → M Val
  | [] => pure v
  | a :: rest => do getPath (← getAcc v a) rest

/-- `x[k] = v` / `x.name = v` on the outermost container only -/
def setAcc (c : Val) (a : Acc) (v : Val) : M Val :=
  match a with
  | .attr n => setAttr c n v
  | .idx k =>
    match c with
    | .dict l => do pure (.dict (dset (← toKey k) v l))
    | _ => throw .unsupported

/-- `root.a[b][c] = v`: rebuilds the spine (value semantics; sound because the translator rejects aliases) -/
def setPath (root : Val) : List Acc → Val → M Val
  | [], v => pure v
  | [a], v => setAcc root a v
  | a :: rest, v => do
      let inner ← getAcc root a
      let inner' ← setPath inner rest v
      setAcc root a inner'

/-- `del root.a[b][c]` (last step must be a dict key that exists) -/
def delPath (root : Val) : List Acc → M Val
  | [] => throw .unsupported
  | [.idx k] =>
    match root with
    | .dict l => do
        let key ← toKey k
        if (dlookup key l).isSome then pure (.dict (ddel key l)) else throw .keyError
    | _ => throw .unsupported
  | [.attr _] => throw .unsupported
  | a :: rest => do
      let inner ← getAcc root a
      let inner' ← delPath inner rest
      setAcc root a inner'

/-! ### numbers -/

def asInt : Val → M Int
  | .int i => pure i
  | .bool b => pure (if b then 1 else 0)
  | .none => throw .typeError
  | _ => throw .unsupported

/-- `min(a, b)` on numbers: `b if b < a else a`; `None` operands raise TypeError -/
def min2 (a b : Val) : M Val := do
  let x ← asInt a
  let y ← asInt b
  pure (if y < x then b else a)

def ltV (a b : Val) : M Val := do pure (.bool ((← asInt a) < (← asInt b)))
def leV (a b : Val) : M Val := do pure (.bool ((← asInt a) ≤ (← asInt b)))
def gtV (a b : Val) : M Val := do pure (.bool ((← asInt a) > (← asInt b)))
def geV (a b : Val) : M Val := do pure (.bool ((← asInt a) ≥ (← asInt b)))
/-- `a + b`: numbers, or concatenation of byte strings (`bytearray += bytes` keeps the bytearray) -/
def add (a b : Val) : M Val :=
  match a, b with
  | .bytearray x, .bytes y => pure (.bytearray (x ++ y))
  | .bytearray x, .bytearray y => pure (.bytearray (x ++ y))
  | .bytes x, .bytes y => pure (.bytes (x ++ y))
  | .bytes x, .bytearray y => pure (.bytes (x ++ y))
  | .list x, .list y => pure (.list (x ++ y))
  | .tuple x, .tuple y => pure (.tuple (x ++ y))
  | _, _ => do pure (.int ((← asInt a) + (← asInt b)))

def sub (a b : Val) : M Val := do pure (.int ((← asInt a) - (← asInt b)))
def mul (a b : Val) : M Val := do pure (.int ((← asInt a) * (← asInt b)))
/-- `a // b` (floor division; ZeroDivisionError is outside the subset) -/
def floordiv (a b : Val) : M Val := do
  let y ← asInt b
  if y = 0 then throw .unsupported else pure (.int (Int.fdiv (← asInt a) y))
def mod (a b : Val) : M Val := do
  let y ← asInt b
  if y = 0 then throw .unsupported else pure (.int (Int.fmod (← asInt a) y))
/-- bit operations: non-negative operands only -/
def natOf (v : Val) : M Nat := do
  let i ← asInt v
  if 0 ≤ i then pure i.toNat else throw .unsupported
/-- `x[n:]` on byte strings for `n ≥ 0` -/
def sliceFrom (x n : Val) : M Val := do
  let k ← natOf n
  match x with
  | .bytes b => pure (.bytes (b.drop k))
  | .bytearray b => pure (.bytearray (b.drop k))
  | _ => throw .unsupported
/-- `x[:n]` on byte strings for `n ≥ 0` -/
def sliceTo (x n : Val) : M Val := do
  let k ← natOf n
  match x with
  | .bytes b => pure (.bytes (b.take k))
  | .bytearray b => pure (.bytearray (b.take k))
  | _ => throw .unsupported
/-- `s.encode('utf8')` -/
def encodeUtf8 : Val → M Val
  | .str s => pure (.bytes s.toUTF8.toList)
  | .bytes _ | .bytearray _ => throw .attributeError
  | _ => throw .unsupported
/-- `x[lo:hi] = v` on a bytearray for `lo, hi ≥ 0` (Python clamps both ends to `len(x)` and `hi` to at least `lo`) -/
def setSlice (x lo hi v : Val) : M Val := do
  let l ← natOf lo
  let h ← natOf hi
  match x, v with
  | .bytearray b, .bytes d | .bytearray b, .bytearray d =>
    let l' := Nat.min l b.length
    let h' := Nat.max l' (Nat.min h b.length)
    pure (.bytearray (b.take l' ++ d ++ b.drop h'))
  | _, _ => throw .unsupported
/-- `x[-k]` for a literal `k ≥ 1` on a tuple / list (the k-th element from the end) -/
def getItemNeg (c : Val) (k : Nat) : M Val :=
  match c with
  | .tuple l | .list l => if 1 ≤ k ∧ k ≤ l.length then (match l[l.length - k]? with | some v => pure v | Option.none => throw .indexError) else throw .indexError
  | _ => throw .unsupported

/-- `x[lo:len(x)-k]` for literal `lo ≥ 0`, `k ≥ 0` on a tuple / list (`x[1:]` is `k = 0`, `x[1:-1]` is `k = 1`) -/
def sliceTL (c : Val) (lo k : Nat) : M Val :=
  match c with
  | .tuple l => pure (.tuple ((l.drop lo).take (l.length - k - lo)))
  | .list l => pure (.list ((l.drop lo).take (l.length - k - lo)))
  | _ => throw .unsupported
def bitand (a b : Val) : M Val := do pure (.int (((← natOf a) &&& (← natOf b) : Nat)))
def bitxor (a b : Val) : M Val := do pure (.int (((← natOf a) ^^^ (← natOf b) : Nat)))
def bitor (a b : Val) : M Val := do pure (.int (((← natOf a) ||| (← natOf b) : Nat)))
def shr (a b : Val) : M Val := do pure (.int (((← natOf a) >>> (← natOf b) : Nat)))

def sumInts : List Val → M Int
  | [] => pure 0
  | v :: vs => do pure ((← asInt v) + (← sumInts vs))

/-- `sum(iterable of ints/bools)` -/
def sum_ (l : List Val) : M Val := do pure (.int (← sumInts l))

/-- `len(x)` -/
def len_ : Val → M Val
  | .bytes b => pure (.int b.length)
  | .bytearray b => pure (.int b.length)
  | .str s => pure (.int s.length)
  | .tuple l => pure (.int l.length)
  | .list l => pure (.int l.length)
  | .dict l => pure (.int l.length)
  | .none => throw .typeError
  | .int _ => throw .typeError
  | .bool _ => throw .typeError
  | _ => throw .unsupported

/-! ### iteration -/

/-- the elements `for x in v` visits -/
def iter : Val → M (List Val)
  | .tuple l => pure l
  | .list l => pure l
  | .bytes b => pure (b.map (fun x => .int x.toNat))
  | .bytearray b => pure (b.map (fun x => .int x.toNat))
  | .str s => pure (s.toList.map (fun c => .str (String.singleton c)))
  | .dict l => pure (l.map (fun kv => kv.1.toVal))
  | .none => throw .typeError
  | .int _ => throw .typeError
  | .bool _ => throw .typeError
  | _ => throw .unsupported

def items : Val → M (List Val)
  | .dict l => pure (l.map (fun kv => .tuple [kv.1.toVal, kv.2]))
  | _ => throw .unsupported

def values : Val → M (List Val)
  | .dict l => pure (l.map (fun kv => kv.2))
  | _ => throw .unsupported

/-- `a, b = v` with exactly `n` targets -/
def unpackN (v : Val) (n : Nat) : M (List Val) :=
  match v with
  | .tuple l | .list l => if l.length = n then pure l else throw .valueError
  | .none => throw .typeError
  | .int _ => throw .typeError
  | .bool _ => throw .typeError
  | _ => throw .unsupported

def nth (l : List Val) (i : Nat) : Val := l.getD i .none

/-- comprehension / generator-expression body: concatenation of the per-element results, left to right -/
def flatMapM (l : List Val) (f : Val → M (List Val)) : M (List Val) :=
  match l with
  | [] => pure []
  | x :: xs => do
      let a ← f x
      let b ← flatMapM xs f
      pure (a ++ b)

/-- generator under `next(gen, default)`: the first element produced, nothing after it is evaluated -/
def firstM (l : List Val) (f : Val → M (Option Val)) : M (Option Val) :=
  match l with
  | [] => pure Option.none
  | x :: xs => do
      match (← f x) with
      | some v => pure (some v)
      | Option.none => firstM xs f

def optD (o : Option Val) (d : Val) : Val := o.getD d

/-- `next(iter(l), default)` -/
def next_ (l : List Val) (d : Val) : Val :=
  match l with
  | [] => d
  | x :: _ => x

/-! ### queue.Queue -/

def queueEmpty : Val → M Val
  | .queue l => pure (.bool l.isEmpty)
  | _ => throw .unsupported

def queuePut (q x : Val) : M Val :=
  match q with
  | .queue l => pure (.queue (l ++ [x]))
  | _ => throw .unsupported

/-- `get_nowait()`: (item, queue afterwards) -/
def queueGet : Val → M (Val × Val)
  | .queue [] => throw .queueEmpty
  | .queue (x :: rest) => pure (x, .queue rest)
  | _ => throw .unsupported

/-! ### struct with formats `<nI` (little-endian unsigned 32-bit words) -/

def digitsVal : List UInt8 → Option Nat
  | [] => some 0
  | l => l.foldl (fun acc c => match acc with
      | Option.none => Option.none
      | some n => if 48 ≤ c.toNat ∧ c.toNat ≤ 57 then some (n * 10 + (c.toNat - 48)) else Option.none) (some 0)

/-- number of 32-bit words of a format `<I`, `<6I`, … ; `none` for any other format -/
def fmtWords (fmt : List UInt8) : Option Nat :=
  match fmt with
  | 60 :: rest =>                      -- '<'
    match rest.reverse with
    | 73 :: revDigits =>               -- 'I'
      if revDigits.isEmpty then some 1 else digitsVal revDigits.reverse
    | _ => Option.none
  | _ => Option.none

def fmtBytes : Val → M (List UInt8)
  | .bytes b => pure b
  | .str s => pure (s.toList.map (fun c => UInt8.ofNat c.toNat))
  | _ => throw .unsupported

def packWords : List Val → M (List UInt8)
  | [] => pure []
  | v :: vs => do
      match v with
      | .int i =>
        if 0 ≤ i ∧ i < 4294967296 then pure (le32 i.toNat ++ (← packWords vs)) else throw .structError
      | .bool _ => throw .unsupported
      | _ => throw .structError

/-- `struct.pack(fmt, *args)` -/
def structPack (fmt : Val) (args : List Val) : M Val := do
  match fmtWords (← fmtBytes fmt) with
  | Option.none => throw .unsupported
  | some n => if args.length = n then pure (.bytes (← packWords args)) else throw .structError

def unpackWords : Nat → List UInt8 → Option (List Val)
  | 0, [] => some []
  | 0, _ :: _ => Option.none
  | n + 1, bs =>
    match rd32 bs with
    | Option.none => Option.none
    | some (w, rest) => (unpackWords n rest).map (fun l => Val.int w :: l)

def bytesOf : Val → M (List UInt8)
  | .bytes b => pure b
  | .bytearray b => pure b
  | _ => throw .typeError

/-- `struct.unpack(fmt, buffer)` -/
def structUnpack (fmt buf : Val) : M Val := do
  match fmtWords (← fmtBytes fmt) with
  | Option.none => throw .unsupported
  | some n =>
    match unpackWords n (← bytesOf buf) with
    | some l => pure (.tuple l)
    | Option.none => throw .structError

def structCalcsize (fmt : Val) : M Val := do
  match fmtWords (← fmtBytes fmt) with
  | Option.none => throw .unsupported
  | some n => pure (.int (4 * n : Nat))


/-! ### big-integer helpers used by auth/keygen.py -/

/-- `a << b`, `a ** b` for non-negative operands -/
def shl (a b : Val) : M Val := do pure (.int (((← natOf a) <<< (← natOf b) : Nat)))
def pow (a b : Val) : M Val := do pure (.int (((← natOf a) ^ (← natOf b) : Nat)))

/-- extended Euclid, the recursion of Mathlib's `Nat.xgcdAux` (ported verbatim so that it can be proved equal to it):
    invariant `r = a*s + b*t`, `r' = a*s' + b*t'` -/
def xgcdAux : Nat → Int → Int → Nat → Int → Int → Nat × Int × Int
  | 0, _, _, r', s', t' => (r', s', t')
  | k + 1, s, t, r', s', t' =>
    let q := r' / (k + 1)
    xgcdAux (r' % (k + 1)) (s' - q * s) (t' - q * t) (k + 1) s t
termination_by k => k
decreasing_by exact Nat.mod_lt _ (Nat.succ_pos _)

/-- the Bezout coefficient of `a` in `gcd a b = a * gcdA a b + b * gcdB a b` -/
def gcdA (a b : Nat) : Int := (xgcdAux a 1 0 b 0 1).2.1

/-- `rsa._modinv(e, m)` of `cryptography` (extended Euclid, result reduced into `[0, m)`); meaningful when `gcd e m = 1` -/
def modinv (e m : Val) : M Val := do
  let a ← natOf e
  let b ← natOf m
  if b = 0 then throw .unsupported else pure (.int (Int.emod (gcdA a b) (b : Int)))

/-- little-endian bytes of `n`, exactly `len` of them (the low `len` bytes) -/
def leBytesN : Nat → Nat → List UInt8
  | 0, _ => []
  | len + 1, n => UInt8.ofNat n :: leBytesN len (n / 256)

/-- `n.to_bytes(length, byteorder)` for a non-negative int: OverflowError when `n` does not fit -/
def intToBytes (n length order : Val) : M Val := do
  let v ← natOf n
  let len ← natOf length
  if v ≥ 256 ^ len then throw .overflowError else
  match order with
  | .str "little" => pure (.bytes (leBytesN len v))
  | .str "big" => pure (.bytes (leBytesN len v).reverse)
  | _ => throw .valueError

/-- `hasattr(x, 'to_bytes')`: ints (and bools) have it -/
def hasToBytes : Val → M Val
  | .int _ => pure (.bool true)
  | .bool _ => pure (.bool true)
  | .none => pure (.bool false)
  | .bytes _ => pure (.bool false)
  | .str _ => pure (.bool false)
  | _ => throw .unsupported

/-- items of a general little-endian struct format: `I`/`L` = unsigned 32-bit, `<n>s` = exactly n bytes -/
inductive FmtItem where
  | u32
  | bytesN (n : Nat)
  deriving DecidableEq, Repr, Inhabited

/-- parser for formats like `<LL256s256sL` (after the `<`): a decimal count followed by `I`/`L` (repeat) or `s` (length) -/
def parseItems : Nat → Option Nat → List UInt8 → Option (List FmtItem)
  | _, Option.none, [] => some []
  | _, some _, [] => Option.none
  | 0, _, _ => Option.none
  | fuel + 1, cnt, c :: rest =>
    if 48 ≤ c.toNat ∧ c.toNat ≤ 57 then parseItems fuel (some (cnt.getD 0 * 10 + (c.toNat - 48))) rest
    else if c = 73 ∨ c = 76 then (parseItems fuel Option.none rest).map (fun l => List.replicate (cnt.getD 1) FmtItem.u32 ++ l)
    else if c = 115 then (parseItems fuel Option.none rest).map (fun l => FmtItem.bytesN (cnt.getD 1) :: l)
    else Option.none

def parseFmtG (fmt : List UInt8) : Option (List FmtItem) :=
  match fmt with
  | 60 :: rest => parseItems (rest.length + 1) Option.none rest
  | _ => Option.none

def packItems : List FmtItem → List Val → M (List UInt8)
  | [], [] => pure []
  | .u32 :: is, v :: vs => do
      match v with
      | .int i => if 0 ≤ i ∧ i < 4294967296 then pure (le32 i.toNat ++ (← packItems is vs)) else throw .structError
      | .bool _ => throw .unsupported
      | _ => throw .structError
  | .bytesN n :: is, v :: vs => do
      match v with
      | .bytes b | .bytearray b => pure ((b.take n ++ List.replicate (n - b.length) 0) ++ (← packItems is vs))   -- `s`: truncated or NUL-padded to n
      | _ => throw .structError
  | _, _ => throw .structError

/-- `struct.pack(fmt, *args)` for general `<…` formats of `I`, `L` and `<n>s` items -/
def structPackG (fmt : Val) (args : List Val) : M Val := do
  match parseFmtG (← fmtBytes fmt) with
  | Option.none => throw .unsupported
  | some items => pure (.bytes (← packItems items args))

/-! ### misc builtins -/

def isinstance (v : Val) (cls : String) : M Val :=
  match cls, v with
  | "bytearray", .bytearray _ => pure (.bool true)
  | "bytearray", _ => pure (.bool false)
  | "bytes", .bytes _ => pure (.bool true)
  | "bytes", _ => pure (.bool false)
  | "str", .str _ => pure (.bool true)
  | "str", _ => pure (.bool false)
  | "int", .int _ => pure (.bool true)
  | "int", .bool _ => pure (.bool true)
  | "int", _ => pure (.bool false)
  | _, _ => throw .unsupported

/-- `ord(c)`: a one-character str; ints (elements of bytes) raise TypeError -/
def ord_ : Val → M Val
  | .str s => match s.toList with
    | [c] => pure (.int c.toNat)
    | _ => throw .typeError
  | .int _ => throw .typeError
  | _ => throw .unsupported

/-- `bytearray(n)` (n zero bytes) / `bytearray()` -/
def bytearrayOf : Val → M Val
  | .int i => if 0 ≤ i then pure (.bytearray (List.replicate i.toNat 0)) else throw .valueError
  | .bytes b => pure (.bytearray b)
  | .bytearray b => pure (.bytearray b)
  | _ => throw .unsupported

def boolV (v : Val) : M Val := do pure (.bool (← truthy v))

/-- `a and b` / `a or b` return an operand; the right operand is only USED when the left does not decide
    (operands are pure values here, so evaluating both terms is harmless) -/
def andV (a : Val) (b : M Val) : M Val := do if (← truthy a) then b else pure a
def orV (a : Val) (b : M Val) : M Val := do if (← truthy a) then pure a else b

def newObj (cls : String) : Val := .obj cls []

end Adb.Py
