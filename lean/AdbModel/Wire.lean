import AdbModel.Txn
/-
  _AdbIOManager: _read_bytes_from_device, _read_packet_from_device, _read_expected_packet_from_device,
  _write_all (F1 repair), _send, send, read, close, connect.
-/
namespace Adb

/-- loop of `_read_bytes_from_device`; `acc` = data so far, `rem` = `length` -/
def readBytesLoop (t : Txn) (start : Int) : Nat → Nat → Bytes → M Bytes
  | 0, _, _ => M.throw .hang
  | fuel + 1, rem, acc =>
    if rem = 0 then pure acc else do
      emit (.req rem rem)
      let temp ← bulkRead rem t.tt
      let acc := acc ++ temp
      let rem := rem - temp.length
      if rem = 0 then pure acc else do
        if (← elapsedGt start t.rt) then M.throw .adbTimeout
        readBytesLoop t start fuel rem acc

/-- `_read_bytes_from_device(length, adb_info)` -/
def readBytes (n : Nat) (t : Txn) : M Bytes := do
  let start ← now
  let w ← M.get
  readBytesLoop t start w.fuel n []

/-- `_read_packet_from_device(adb_info)` -/
def readPacket (t : Txn) : M Pkt := do
  let msg ← readBytes Generated.MESSAGE_SIZE t
  match unpack msg with
  | none => M.throw .pyValueError
  | some h =>
    match Cmd.ofWire? h.cmd with
    | none => M.throw .invalidCommand
    | some c =>
      if h.len = 0 then pure ⟨c, h.arg0, h.arg1, []⟩ else do
        let data ← readBytes h.len t
        if checksum data ≠ h.sum then M.throw .invalidChecksum
        pure ⟨c, h.arg0, h.arg1, data⟩

/-- loop of `_write_all` -/
def writeAllLoop (t : Txn) (start : Int) : Nat → Bytes → M Unit
  | 0, _ => M.throw .hang
  | fuel + 1, data => do
    let nw ← bulkWrite data t.tt
    match nw with
    | none => pure ()
    | some k =>
      if k ≥ data.length then pure () else do
        let data := data.drop k
        if (← elapsedGt start t.rt) then M.throw .adbTimeout
        writeAllLoop t start fuel data

def writeAll (data : Bytes) (t : Txn) : M Unit := do
  let start ← now
  let w ← M.get
  writeAllLoop t start w.fuel data

/-- `_send(msg, adb_info)` -/
def sendRaw (m : Msg) (t : Txn) : M Unit := do
  emit (.tx m)
  match m.pack? with
  | none => M.throw .pyStructError
  | some hdr =>
    writeAll hdr t
    if !m.data.isEmpty then writeAll m.data t

/-- `_AdbIOManager.send` -/
def ioSend (m : Msg) (t : Txn) : M Unit := withLock lockTransport (sendRaw m t)

/-- `_read_expected_packet_from_device` -/
def expectLoop (expected : List Cmd) (t : Txn) (start : Int) : Nat → M Pkt
  | 0 => M.throw .hang
  | fuel + 1 => do
    let p ← readPacket t
    if expected.contains p.cmd then do emit (.deliver p); pure p
    else do
      emit (.skip p)
      if (← elapsedGt start t.rt) then M.throw .adbTimeout
      expectLoop expected t start fuel

def expectPacket (expected : List Cmd) (t : Txn) : M Pkt := do
  let start ← now
  let w ← M.get
  expectLoop expected t start w.fuel

def storeFind (t : Txn) (allowZeros : Bool) : M (Option (Nat × Nat)) := fun w =>
  (.ok (if allowZeros then w.store.findAllowZeros t.remoteId t.localId else w.store.find t.remoteId t.localId), w)

def storeErr : StoreErr → Err
  | .typeError => .pyTypeError | .keyError => .pyKeyError | .queueEmpty => .pyQueueEmpty

def storeGet (k : Nat × Nat) : M Pkt := fun w =>
  match w.store.get (some k.1) (some k.2) with
  | .ok ((c, a0, a1, d), s') => (.ok ⟨c, a0, a1, d⟩, { w with store := s' })
  | .error e => (.error (storeErr e), w)

/-- the `while arg0_arg1:` loop that drains this stream's parked packets -/
def drainLoop (expected : List Cmd) (t : Txn) (allowZeros : Bool) : Nat → M (Option Pkt)
  | 0 => M.throw .hang
  | fuel + 1 => do
    match (← storeFind t allowZeros) with
    | none => pure none
    | some k =>
      let p ← storeGet k
      if expected.contains p.cmd then do emit (.deliver p); pure (some p)
      else do emit (.unstore p); drainLoop expected t allowZeros fuel

def storePut (p : Pkt) : M Unit := fun w =>
  let s' := w.store.put p.arg0 p.arg1 p.cmd p.data
  let dropped := p.cmd = Cmd.CLSE ∧ w.store.queue p.arg0 p.arg1 = none
  (.ok (), { w with store := s', trace := (if dropped then TEv.lost p else TEv.park p) :: w.trace })

def storeClear (a0 a1 : Nat) : M Unit := M.modify fun w => { w with store := w.store.clear a0 a1 }
def storeClearAll : M Unit := M.modify fun w => { w with store := [] }

/-- one iteration of the `while True:` body of `_AdbIOManager.read`, under the transport lock -/
def readIter (expected : List Cmd) (t : Txn) (allowZeros : Bool) : M (Option Pkt) :=
  withLock lockTransport do
    let w ← M.get
    match (← withLock lockStore (drainLoop expected t allowZeros w.fuel)) with
    | some p => pure (some p)
    | none =>
      let p ← readPacket t
      if !t.argsMatch p.arg0 p.arg1 allowZeros then do
        withLock lockStore (storePut p)
        pure none
      else do
        if p.cmd = Cmd.CLSE then withLock lockStore (storeClear p.arg0 p.arg1)
        if expected.contains p.cmd then do emit (.deliver p); pure (some p)
        else do emit (.drop p); pure none

def readLoop (expected : List Cmd) (t : Txn) (allowZeros : Bool) (start : Int) : Nat → M Pkt
  | 0 => M.throw .hang
  | fuel + 1 => do
    match (← readIter expected t allowZeros) with
    | some p => pure p
    | none =>
      if (← elapsedGt start t.rt) then M.throw .adbTimeout
      readLoop expected t allowZeros start fuel

/-- `_AdbIOManager.read(expected_cmds, adb_info, allow_zeros)` -/
def ioRead (expected : List Cmd) (t : Txn) (allowZeros : Bool := false) : M Pkt := do
  let w ← M.get
  match (← withLock lockStore (drainLoop expected t allowZeros w.fuel)) with
  | some p => pure p
  | none =>
    let start ← now
    readLoop expected t allowZeros start w.fuel

/-- `_AdbIOManager.close` -/
def ioClose : M Unit := withLock lockTransport do
  tClose
  withLock lockStore storeClearAll

/-! ### CNXN / AUTH handshake -/

/-- signers are abstract in the session model: key `k` signs `tok` as "SIG" k tok, public key "PUB" k -/
def stubSign (k : Nat) (tok : Bytes) : Bytes := ascii "SIG" ++ [UInt8.ofNat k] ++ tok
def stubPub (k : Nat) : Bytes := ascii "PUB" ++ [UInt8.ofNat k]

/-- step 6 of `connect`: the loop over the keys. Returns `some maxdata` when a signature is accepted. -/
def authLoop (t : Txn) : List Nat → Pkt → M (Option Nat × Pkt)
  | [], last => pure (none, last)
  | k :: ks, last => do
    if last.arg0 ≠ Generated.AUTH_TOKEN then do
      tClose
      M.throw .invalidResponse
    sendRaw ⟨.AUTH, Generated.AUTH_SIGNATURE, 0, stubSign k last.data⟩ t
    let p ← expectPacket [.CNXN, .AUTH] t
    if p.cmd = Cmd.CNXN then pure (some p.arg1, p)
    else authLoop t ks p

/-- `_AdbIOManager.connect(banner, rsa_keys, auth_timeout_s, auth_callback, adb_info)` → maxdata -/
def ioConnect (banner : Bytes) (keys : List Nat) (authTimeout : Timeout) (hasCb : Bool) (t : Txn) : M Nat :=
  withLock lockTransport do
    tClose
    withLock lockStore storeClearAll
    tConnect t.tt
    sendRaw ⟨.CNXN, Generated.VERSION, Generated.MAX_ADB_DATA, ascii "host::" ++ banner ++ [0]⟩ t
    let p ← expectPacket [.AUTH, .CNXN] t
    if p.cmd ≠ Cmd.AUTH then pure p.arg1 else do
      if keys.isEmpty then do
        tClose
        M.throw .deviceAuth
      match (← authLoop t keys p) with
      | (some maxdata, _) => pure maxdata
      | (none, _) =>
        let pubkey := stubPub (keys.headD 0)
        if hasCb then emit .cbAuth
        sendRaw ⟨.AUTH, Generated.AUTH_RSAPUBLICKEY, 0, pubkey ++ [0]⟩ t
        let t' := { t with tt := authTimeout }
        let p ← expectPacket [.CNXN] t'
        pure p.arg1

end Adb
