import AdbModel.FileSync
import AdbModel.Generated.AstFacts
/-
  AdbDevice public API: connect, close, exec_out, reboot, root, shell, streaming_shell, list, pull,
  push, stat.  The guard prefix of every operation (empty-path check, availability check, in which
  order) is taken from the table GENERATED from the source AST (`Generated.guardsSync`).
-/
namespace Adb

def guardsFor (op : String) : List String :=
  match Generated.guardsSync.find? (fun e => e.1 == op) with
  | some (_, _, gs) => gs
  | none => []

def runGuard (g : String) (devPath : Option Bytes) : M Unit := fun w =>
  if g == "path" then
    (if devPath = some [] then (.error .devicePathInvalid, w) else (.ok (), w))
  else if g == "avail" then
    (if w.available then (.ok (), w) else (.error .adbConnection, w))
  else (.ok (), w)

def runGuards : List String → Option Bytes → M Unit
  | [], _ => pure ()
  | g :: gs, p => do runGuard g p; runGuards gs p

/-- `AdbDevice.connect(rsa_keys, transport_timeout_s, auth_timeout_s, read_timeout_s, auth_callback)` -/
def devConnect (keys : List Nat) (tt authT rt : Timeout) (hasCb : Bool) : M Val := do
  let tt' ← getTT tt
  let t ← liftExcept (Txn.make none none tt' rt none)
  M.modify fun w => { w with available := false }
  let w ← M.get
  let maxdata ← ioConnect w.banner keys authT hasCb t
  M.modify fun w => { w with available := true, maxdata := maxdata }
  pure (.bool true)

/-- `AdbDevice.close()` -/
def devClose : M Val := do
  M.modify fun w => { w with available := false }
  ioClose
  pure .none

def devShellLike (opName : String) (svc : Bytes) (command : Bytes) (tt rt total : Timeout) (decode : Bool) : M Val := do
  runGuards (guardsFor opName) none
  service svc command tt rt total decode

def devRoot (tt rt total : Timeout) : M Val := do
  runGuards (guardsFor "root") none
  let _ ← service (ascii "root") [] tt rt total false
  pure .none

def devReboot (fastboot : Bool) (tt rt total : Timeout) : M Val := do
  runGuards (guardsFor "reboot") none
  let _ ← openStream (if fastboot then ascii "reboot:bootloader" else ascii "reboot:") tt rt total
  pure .none

def devStreamingShell (command : Bytes) (tt rt : Timeout) (decode : Bool) : M Val := do
  runGuards (guardsFor "streaming_shell") none
  streamingService (ascii "shell") command tt rt decode

/-- loop of `list`: DENT records until DONE -/
def listLoop (t : Txn) : Nat → FsInfo → List (Bytes × Nat × Nat × Nat) → M (List (Bytes × Nat × Nat × Nat))
  | 0, _, _ => M.throw .hang
  | fuel + 1, fi, acc => do
    let (r, fi) ← fsRead [.DENT, .DONE] t fi
    if r.id = SyncId.DONE then pure acc.reverse
    else
      let mode := r.fields.getD 0 0
      let size := r.fields.getD 1 0
      let mtime := r.fields.getD 2 0
      listLoop t fuel fi ((r.data.getD [], mode, size, mtime) :: acc)

def devList (devPath : Bytes) (tt rt : Timeout) : M Val := do
  runGuards (guardsFor "list") (some devPath)
  let t ← openStream (ascii "sync:") tt rt none
  let w ← M.get
  let fi : FsInfo := { fmt := .list, maxdata := w.maxdata }
  let fi ← fsSend .LIST t fi devPath
  let files ← listLoop t w.fuel fi []
  clse t
  pure (.listing files)

def devStat (devPath : Bytes) (tt rt : Timeout) : M Val := do
  runGuards (guardsFor "stat") (some devPath)
  let t ← openStream (ascii "sync:") tt rt none
  let w ← M.get
  let fi : FsInfo := { fmt := .stat, maxdata := w.maxdata }
  let fi ← fsSend .STAT t fi devPath
  let (r, _) ← fsRead [.STAT] t fi
  clse t
  pure (.stat (r.fields.getD 0 0) (r.fields.getD 1 0) (r.fields.getD 2 0))

/-- loop of `_pull`: DATA records until DONE -/
def pullLoop (devPath : Bytes) (cb : CbMode) (total : Nat) (t : Txn) : Nat → FsInfo → M Unit
  | 0, _ => M.throw .hang
  | fuel + 1, fi => do
    let (r, fi) ← fsRead [.DATA, .DONE] t fi
    if r.id = SyncId.DONE then pure ()
    else do
      let data := r.data.getD []
      M.modify fun w => { w with sink := some ((w.sink.getD []) ++ data) }
      callProgress cb devPath data.length total
      pullLoop devPath cb total t fuel fi

def pullInner (devPath : Bytes) (cb : CbMode) (t : Txn) (fi : FsInfo) : M Unit := do
  let total ← if cb ≠ CbMode.none then do
      match (← devStat devPath t.tt t.rt) with
      | .stat _ size _ => pure size
      | _ => pure 0
    else pure 0
  let fi ← fsSend .RECV t fi devPath
  let w ← M.get
  pullLoop devPath cb total t w.fuel fi

/-- `pull(device_path, local_path, progress_callback, …)`: the destination is created/truncated first -/
def devPull (devPath : Bytes) (cb : CbMode) (tt rt : Timeout) : M Val := do
  runGuards (guardsFor "pull") (some devPath)
  M.modify fun w => { w with sink := some [] }
  let t ← openStream (ascii "sync:") tt rt none
  let w ← M.get
  let fi : FsInfo := { fmt := .pull, maxdata := w.maxdata }
  M.tryFinally (pullInner devPath cb t fi) (clse t)
  pure .none

inductive LocalRef where
  | bytesio (id : Nat)
  | file (id : Nat)
  | dir (id : Nat)
  deriving Repr, Inhabited, DecidableEq

def pushFile (fileId : Nat) (devPath : Bytes) (mode mtime : Nat) (cb : CbMode) (tt rt : Timeout) : M Unit := do
  let content ← lookupFile fileId
  let t ← openStream (ascii "sync:") tt rt none
  let w ← M.get
  let fi : FsInfo := { fmt := .push, maxdata := w.maxdata }
  pushOne content devPath mode mtime cb t fi
  clse t

def pushFiles (devPath : Bytes) (mode mtime : Nat) (cb : CbMode) (tt rt : Timeout) : List (Bytes × Nat) → M Unit
  | [] => pure ()
  | (name, fid) :: rest => do
    pushFile fid (devPath ++ [47] ++ name) mode mtime cb tt rt
    pushFiles devPath mode mtime cb tt rt rest

/-- `push(local_path, device_path, st_mode, mtime, progress_callback, …)` -/
def devPush (src : LocalRef) (devPath : Bytes) (mode mtime : Nat) (cb : CbMode) (tt rt : Timeout) : M Val := do
  runGuards (guardsFor "push") (some devPath)
  match src with
  | .bytesio id | .file id =>
    pushFile id devPath mode mtime cb tt rt
    pure .none
  | .dir id =>
    let w ← M.get
    match w.dirs.find? (·.1 == id) with
    | none => M.throw .localFileError
    | some (_, entries) =>
      let _ ← devShellLike "shell" (ascii "shell") (ascii "mkdir " ++ devPath) tt rt none true
      pushFiles devPath mode mtime cb tt rt entries
      pure .none

end Adb
