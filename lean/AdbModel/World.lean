import AdbModel.StoreSpec
/-
  The world every sequential operation runs in: scripted transport connections (device→host byte
  segments gated on how much the peer has received, read fragmentation, write acceptance, faults),
  a virtual clock in ticks of 2^-10 s, the `AdbDevice` object state, and ghost observations
  (bytes the peer received, a trace of events).  `M` is "Python with exceptions that keep effects".
-/
namespace Adb

/-- Exceptions, reduced to the small enum the harness compares. -/
inductive Err where
  | adbTimeout            -- exceptions.AdbTimeoutError
  | transportTimeout      -- the transport's own timeout error (TcpTimeoutException / UsbReadFailedError…)
  | transportError        -- any other transport failure (reset, closed)
  | invalidChecksum | invalidCommand | invalidResponse
  | deviceAuth | adbConnection | devicePathInvalid
  | pushFailed (msg : Bytes)
  | adbCommandFailure (reason : Bytes)      -- raw reason bytes; the message text is their backslashreplace decoding
  | pyTypeError | pyKeyError | pyStructError | pyValueError | pyQueueEmpty
  | localFileError        -- open()/listdir failure on the local side
  | hang                  -- would block forever (no timeout and nothing to read) or loop fuel exhausted
  deriving DecidableEq, Repr, Inhabited

/-- seconds as ticks of 2^-10 s; `none` is Python `None` -/
abbrev Timeout := Option Int

structure Seg where
  needOut : Nat          -- readable once the peer has received at least this many host bytes
  bytes : Bytes
  deriving Repr, Inhabited, DecidableEq

inductive FaultKind where
  | timeout   -- one-shot: the call waits its transport timeout and raises the transport's timeout error
  | reset     -- persistent: this and every later call on the connection raises a transport error
  | eof       -- persistent, reads only: this and every later read returns b''
  deriving DecidableEq, Repr, Inhabited

structure Fault where
  inbound : Bool         -- read side (true) or write side (false)
  off : Nat              -- absolute stream offset at which a call meets the fault
  kind : FaultKind
  deriving Repr, Inhabited, DecidableEq

/-- Environment of one transport connection (from `connect()` to `close()`). -/
structure Conn where
  segs : List Seg := []
  frags : List Nat := []       -- sizes of successive reads (0 = an empty read); exhausted ⇒ unlimited
  ofrags : List Nat := []      -- bytes accepted by successive writes (per boundary); exhausted ⇒ unlimited
  faults : List Fault := []
  dt : Int := 1                -- duration of every completed transport call
  writeNone : Bool := false    -- bulk_write returns None instead of a count (accepts everything)
  connectFails : Bool := false
  -- running state
  inOff : Nat := 0
  outOff : Nat := 0
  fragLeft : Option Nat := none   -- bytes left in the current read fragment
  ofragLeft : Option Nat := none
  isReset : Bool := false
  isEof : Bool := false
  peerChunks : List Bytes := [] -- what the peer has received on this connection: accepted chunks, most recent first
  deriving Repr, Inhabited

inductive TEv where
  | tx (m : Msg)                       -- `_send` was entered with this message
  | deliver (p : Pkt)                  -- a packet returned to the caller of read / _read_expected_packet
  | park (p : Pkt)                     -- put into the packet store for another stream
  | drop (p : Pkt)                     -- matched the stream but was not expected: discarded
  | lost (p : Pkt)                     -- K1: CLSE for a stream without store entry, discarded by `put`
  | skip (p : Pkt)                     -- _read_expected_packet: not an expected command, discarded
  | unstore (p : Pkt)                  -- taken out of the store and not expected: discarded
  | req (n : Nat) (remaining : Nat)    -- bulk_read(n) issued while `remaining` bytes of the frame were missing
  | yielded (d : Bytes)                -- an item yielded by a streaming generator
  | cbAuth
  | cbProgress (path : Bytes) (n total : Nat)
  | tclose | tconnect
  deriving Repr, Inhabited, DecidableEq

structure World where
  conns : List Conn := []        -- environments of future connections; head is used by the next connect()
  cur : Option Conn := none      -- the open connection
  past : List Bytes := []        -- peerGot of closed connections (most recent first)
  now : Int := 0
  fuel : Nat := 100000           -- loop budget handed to every loop (the "hang" verdict)
  -- AdbDevice object
  store : Store := []
  available : Bool := false
  maxdata : Nat := Generated.MAX_PUSH_DATA
  localId : Nat := 0
  banner : Bytes := []
  defaultTT : Timeout := none
  locks : List Nat := []         -- currently held: 0 = transport lock, 1 = store lock, 2 = local-id lock
  -- local filesystem seen by push/pull
  files : List (Nat × Bytes) := []                       -- id ↦ content (regular files and BytesIO objects)
  dirs : List (Nat × List (Bytes × Nat)) := []           -- id ↦ [(name, file id)] in os.listdir order
  sink : Option Bytes := none                            -- destination of the current pull (created on open)
  -- observations
  trace : List TEv := []         -- most recent first
  deriving Inhabited

abbrev M (α : Type) := World → Except Err α × World

namespace M
@[inline] def pure {α} (a : α) : M α := fun w => (.ok a, w)
@[inline] def bind {α β} (x : M α) (f : α → M β) : M β := fun w =>
  match x w with
  | (.ok a, w') => f a w'
  | (.error e, w') => (.error e, w')
@[inline] def throw {α} (e : Err) : M α := fun w => (.error e, w)
@[inline] def get : M World := fun w => (.ok w, w)
@[inline] def modify (f : World → World) : M Unit := fun w => (.ok (), f w)
/-- `pull`'s clean-up discipline (after the F8 repair):
    `try: x  except BaseException: (try: fin  except Exception: pass); raise`  and, on the normal path, `fin` afterwards.
    `fin` always runs; when `x` raised, ITS exception is the one reported, whatever `fin` does. -/
@[inline] def tryFinally {α} (x : M α) (fin : M Unit) : M α := fun w =>
  match x w with
  | (.ok a, w') => (match fin w' with | (.ok _, w'') => (.ok a, w'') | (.error e, w'') => (.error e, w''))
  | (.error e, w') => (match fin w' with | (.ok _, w'') => (.error e, w'') | (.error _, w'') => (.error e, w''))
/-- `try: x  except: pass` -/
@[inline] def swallow (x : M Unit) : M Unit := fun w =>
  match x w with
  | (_, w') => (.ok (), w')
end M

instance : Monad M where
  pure := M.pure
  bind := M.bind

/-- `with lock: body` — the lock is released on every exit; re-acquiring a held lock would block forever -/
def withLock {α} (l : Nat) (body : M α) : M α := fun w =>
  if l ∈ w.locks then (.error .hang, w)
  else
    match body { w with locks := l :: w.locks } with
    | (r, w') => (r, { w' with locks := w'.locks.erase l })

def lockTransport : Nat := 0
def lockStore : Nat := 1
def lockLocalId : Nat := 2

def liftExcept {α} (x : Except Err α) : M α := fun w => (x, w)

def emit (e : TEv) : M Unit := M.modify fun w => { w with trace := e :: w.trace }
def now : M Int := fun w => (.ok w.now, w)

/-- `time.time() - start > limit` with Python's `None` comparison raising TypeError -/
def elapsedGt (start : Int) (limit : Timeout) : M Bool := fun w =>
  match limit with
  | none => (.error .pyTypeError, w)
  | some l => (.ok (decide (w.now - start > l)), w)

/-! ### The scripted transport -/

/-- device→host bytes that are readable now: leading segments whose gate is satisfied -/
def readableOf (outLen : Nat) : List Seg → Bytes
  | [] => []
  | s :: rest => if s.needOut ≤ outLen then s.bytes ++ readableOf outLen rest else []

/-- at most `n` of the readable bytes (what a read of size `n` can see); cost O(n + segments touched) -/
def readablePrefix (outLen : Nat) : Nat → List Seg → Bytes
  | 0, _ => []
  | _, [] => []
  | n + 1, s :: rest =>
    if s.needOut ≤ outLen then
      if s.bytes.length ≥ n + 1 then s.bytes.take (n + 1)
      else s.bytes ++ readablePrefix outLen (n + 1 - s.bytes.length) rest
    else []

/-- is anything readable now? (empty segments are skipped) -/
def anyReadable (outLen : Nat) : List Seg → Bool
  | [] => false
  | s :: rest => if s.needOut ≤ outLen then (if s.bytes.isEmpty then anyReadable outLen rest else true) else false

/-- remove `k` bytes from the front of the segment list -/
def dropSegs : Nat → List Seg → List Seg
  | 0, segs => segs
  | _, [] => []
  | k + 1, s :: rest =>
    if s.bytes.length ≤ k + 1 then dropSegs (k + 1 - s.bytes.length) rest
    else { s with bytes := s.bytes.drop (k + 1) } :: rest

/-- what the peer has received on this connection, in order -/
def Conn.peerGot (c : Conn) : Bytes := c.peerChunks.reverse.flatten

/-- everything the device will ever send on this connection, gating ignored -/
def Conn.inboundRest (c : Conn) : Bytes := (c.segs.map (·.bytes)).flatten

def nextFault (inbound : Bool) (off : Nat) (fs : List Fault) : Option Fault :=
  fs.find? (fun f => f.inbound == inbound && f.off == off)

/-- distance to the nearest fault strictly ahead on this side (a call never crosses a fault offset) -/
def faultLimit (inbound : Bool) (off : Nat) (fs : List Fault) : Option Nat :=
  (fs.filter (fun f => f.inbound == inbound && decide (f.off > off))).foldl
    (fun acc f => match acc with | none => some (f.off - off) | some d => some (min d (f.off - off))) none

def minOpt (a : Nat) : Option Nat → Nat
  | none => a
  | some b => min a b

def waitTimeout {α : Type} (tt : Timeout) : M α := fun w =>
  match tt with
  | none => (.error .hang, w)                       -- blocking call, nothing will ever arrive
  | some t => (.error .transportTimeout, { w with now := w.now + (if t > 0 then t else 0) })

/-- `transport.bulk_read(n, tt)` -/
def bulkRead (n : Nat) (tt : Timeout) : M Bytes := fun w =>
  match w.cur with
  | none => (.error .transportError, w)
  | some c =>
    if c.isReset then (.error .transportError, w)
    else if c.isEof then (.ok [], { w with now := w.now + c.dt })
    else
      match nextFault true c.inOff c.faults with
      | some f =>
        let c' := { c with faults := c.faults.filter (· != f) }
        match f.kind with
        | .timeout => waitTimeout tt { w with cur := some c' }
        | .reset => (.error .transportError, { w with cur := some { c' with isReset := true } })
        | .eof => (.ok [], { w with cur := some { c' with isEof := true }, now := w.now + c.dt })
      | none =>
        -- start a new fragment if none is in progress
        let (fl, frags) : Option Nat × List Nat :=
          match c.fragLeft with
          | some k => (some k, c.frags)
          | none => match c.frags with
            | [] => (none, [])
            | f :: rest => (some f, rest)
        if fl = some 0 then
          (.ok [], { w with cur := some { c with fragLeft := none, frags := frags }, now := w.now + c.dt })
        else
          if !anyReadable c.outOff c.segs then waitTimeout tt w
          else
            let want := minOpt (minOpt n fl) (faultLimit true c.inOff c.faults)
            let readable := readablePrefix c.outOff want c.segs
            let k := readable.length
            let fl' := match fl with | none => none | some x => if x - k = 0 then none else some (x - k)
            let c' := { c with segs := dropSegs k c.segs, inOff := c.inOff + k, fragLeft := fl', frags := frags }
            (.ok (readable.take k), { w with cur := some c', now := w.now + c.dt })

/-- `transport.bulk_write(data, tt)`; result is the reported count (`none` = Python `None`) -/
def bulkWrite (data : Bytes) (tt : Timeout) : M (Option Nat) := fun w =>
  match w.cur with
  | none => (.error .transportError, w)
  | some c =>
    if c.isReset then (.error .transportError, w)
    else
      match nextFault false c.outOff c.faults with
      | some f =>
        let c' := { c with faults := c.faults.filter (· != f) }
        match f.kind with
        | .timeout => waitTimeout tt { w with cur := some c' }
        | _ => (.error .transportError, { w with cur := some { c' with isReset := true } })
      | none =>
        if c.writeNone then
          -- a None-returning transport cannot report a short write: it takes everything
          (.ok none, { w with cur := some { c with peerChunks := data :: c.peerChunks, outOff := c.outOff + data.length },
                              now := w.now + c.dt })
        else
          let (fl, ofrags) : Option Nat × List Nat :=
            match c.ofragLeft with
            | some k => (some k, c.ofrags)
            | none => match c.ofrags with
              | [] => (none, [])
              | f :: rest => (some (max f 1), rest)
          let k := minOpt (minOpt data.length fl) (faultLimit false c.outOff c.faults)
          let fl' := match fl with | none => none | some x => if x - k = 0 then none else some (x - k)
          let c' := { c with peerChunks := data.take k :: c.peerChunks, outOff := c.outOff + k, ofragLeft := fl', ofrags := ofrags }
          (.ok (some k), { w with cur := some c', now := w.now + c.dt })

/-- `transport.close()` -/
def tClose : M Unit := fun w =>
  match w.cur with
  | none => (.ok (), { w with trace := .tclose :: w.trace })
  | some c => (.ok (), { w with cur := none, past := c.peerGot :: w.past, trace := .tclose :: w.trace })

/-- `transport.connect(tt)` -/
def tConnect (_tt : Timeout) : M Unit := fun w =>
  match w.conns with
  | [] => (.error .transportError, { w with trace := .tconnect :: w.trace })
  | c :: rest =>
    if c.connectFails then (.error .transportError, { w with conns := rest, trace := .tconnect :: w.trace })
    else (.ok (), { w with conns := rest, cur := some c, trace := .tconnect :: w.trace })

/-- bytes the peer has received on the current connection -/
def World.peerGot (w : World) : Bytes := match w.cur with | some c => c.peerGot | none => []

end Adb
