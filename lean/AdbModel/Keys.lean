import AdbModel.Basic
import AdbModel.Generated.Constants
/-
  Key material (property C17): the Android `RSAPublicKey` blob written by `adb_shell.auth.keygen`
  and the signature produced by the three signer classes (`sign_pythonrsa`, `sign_cryptography`,
  `sign_pycryptodome`): RSASSA-PKCS1-v1_5 over the 20-byte token taken as a SHA-1 digest.

  Everything is plain `Nat` / `List UInt8` arithmetic (no Mathlib: the driver links this file).
  The sizes come from `Generated.ANDROID_PUBKEY_*` (regenerated from keygen.py on every run), so a
  change of the constants in keygen.py changes the model and breaks the C17 size theorems.
-/
namespace Adb.Keys
open Adb

/-- `ANDROID_PUBKEY_MODULUS_SIZE` (bytes of a modulus / signature). -/
abbrev modSize : Nat := Generated.ANDROID_PUBKEY_MODULUS_SIZE
/-- `ANDROID_PUBKEY_MODULUS_SIZE_WORDS`. -/
abbrev modWords : Nat := Generated.ANDROID_PUBKEY_MODULUS_SIZE_WORDS
/-- `struct.calcsize(ANDROID_RSAPUBLICKEY_STRUCT)`. -/
abbrev encSize : Nat := Generated.ANDROID_PUBKEY_ENCODED_SIZE

/-! ### Modular exponentiation -/

/-- Right-to-left square-and-multiply; `fuel` bounds the number of bits of `e` still to consume.
    Invariant: the result is `acc * b ^ e % m`. -/
def powModAux (m : Nat) : Nat → Nat → Nat → Nat → Nat
  | 0, _, _, acc => acc
  | fuel + 1, b, e, acc =>
    if e = 0 then acc
    else powModAux m fuel (b * b % m) (e / 2) (if e % 2 = 1 then acc * b % m else acc)

/-- `pow(b, e, m)` (`= b ^ e % m`, theorem `C17_powMod_eq`; `m = 1` gives `0`). -/
def powMod (b e m : Nat) : Nat := powModAux m (e.log2 + 1) (b % m) e (1 % m)

/-! ### Integers and byte strings -/

/-- `int.from_bytes(bs, 'little')`. -/
def leNat : Bytes → Nat
  | [] => 0
  | b :: bs => b.toNat + 256 * leNat bs

/-- `n.to_bytes(len, 'little')` for `n < 256^len` (Python raises `OverflowError` otherwise; the
    model keeps the low `len` bytes). -/
def leBytes : Nat → Nat → Bytes
  | 0, _ => []
  | len + 1, n => UInt8.ofNat n :: leBytes len (n / 256)

/-- OS2IP of RFC 8017: `int.from_bytes(bs, 'big')`. -/
def os2ip (bs : Bytes) : Nat := leNat bs.reverse

/-- I2OSP of RFC 8017: `n.to_bytes(len, 'big')`. -/
def i2osp (len n : Nat) : Bytes := (leBytes len n).reverse

/-! ### RSASSA-PKCS1-v1_5 with a pre-hashed SHA-1 digest -/

/-- DER prefix of `DigestInfo` for SHA-1 (RFC 8017 section 9.2 note 1):
    `30 21 30 09 06 05 2b 0e 03 02 1a 05 00 04 14`; the 20-byte digest follows. -/
def sha1Prefix : Bytes :=
  [0x30, 0x21, 0x30, 0x09, 0x06, 0x05, 0x2b, 0x0e, 0x03, 0x02, 0x1a, 0x05, 0x00, 0x04, 0x14]

/-- EMSA-PKCS1-v1_5 encoding of the token (used AS the SHA-1 digest) to `k` bytes:
    `00 01 FF…FF 00 ‖ DigestInfo-prefix ‖ token` with `k − 3 − |T|` bytes `FF`
    (`|T| = 15 + 20 = 35` for an ADB token, i.e. 218 bytes `FF` for `k = 256`). -/
def emsa (token : Bytes) (k : Nat) : Bytes :=
  [0, 1] ++ List.replicate (k - 3 - (sha1Prefix.length + token.length)) 0xFF ++ [0] ++ sha1Prefix ++ token

/-- What every `Sign(token)` returns: `EM ^ d mod n` as 256 big-endian bytes. -/
def sign (n d : Nat) (token : Bytes) : Bytes :=
  i2osp modSize (powMod (os2ip (emsa token modSize)) d n)

/-- adbd's check (`RSA_verify(NID_sha1, token, 20, sig, 256, key)`): `sig ^ e mod n`, written as
    256 bytes, must be exactly the expected encoding. -/
def verify (n e : Nat) (token sig : Bytes) : Bool :=
  i2osp modSize (powMod (os2ip sig) e n) == emsa token modSize

/-! ### The Android `RSAPublicKey` blob -/

/-- Inverse of an odd `x` modulo `2^32`.  The unit group of `Z/2^32` has order `2^31`, so the
    inverse is `x ^ (2^31 − 1)`; for odd `x` this is the same number that keygen.py's
    `rsa._modinv(x, 2**32)` (extended Euclid) returns, the inverse being unique
    (`C17_n0inv_unique`). -/
def inv32 (x : Nat) : Nat := powMod x (2 ^ 31 - 1) (2 ^ 32)

/-- `n0inv = r32 - modinv(n % r32, r32)` with `r32 = 1 << 32`. -/
def n0inv (n : Nat) : Nat := 2 ^ 32 - inv32 (n % 2 ^ 32)

/-- `rr = ((1 << (ANDROID_PUBKEY_MODULUS_SIZE * 8)) ** 2) % n`  (`= 2^4096 % n`). -/
def rr (n : Nat) : Nat := (2 ^ (modSize * 8)) ^ 2 % n

/-- `struct.pack('<LL256s256sL', 64, n0inv, n_le, rr_le, e)`. -/
def blob (n e : Nat) : Bytes :=
  le32 modWords ++ le32 (n0inv n) ++ leBytes modSize n ++ leBytes modSize (rr n) ++ le32 e

/-- `struct.unpack(ANDROID_RSAPUBLICKEY_STRUCT, bs)` as in `decode_pubkey` (exact size, the
    `modulus_size_words` assertion included): `(words, n0inv, modulus, rr, exponent)`. -/
def decodeBlob (bs : Bytes) : Option (Nat × Nat × Nat × Nat × Nat) :=
  if bs.length ≠ encSize then none else
  match rd32 bs with
  | none => none
  | some (w, r1) =>
    if w ≠ modWords then none else
    match rd32 r1 with
    | none => none
    | some (ninv, r2) =>
      match rd32 ((r2.drop modSize).drop modSize) with
      | none => none
      | some (e, _) => some (w, ninv, leNat (r2.take modSize), leNat ((r2.drop modSize).take modSize), e)

/-! ### Base64 (standard alphabet, `=` padding) -/

/-- The character of a 6-bit value. -/
def b64enc6 (v : Nat) : UInt8 :=
  if v < 26 then UInt8.ofNat (65 + v)
  else if v < 52 then UInt8.ofNat (71 + v)
  else if v < 62 then UInt8.ofNat (v - 4)
  else if v = 62 then 43 else 47

/-- The 6-bit value of a character of the alphabet. -/
def b64dec6 (c : UInt8) : Option Nat :=
  let x := c.toNat
  if 65 ≤ x ∧ x ≤ 90 then some (x - 65)
  else if 97 ≤ x ∧ x ≤ 122 then some (x - 71)
  else if 48 ≤ x ∧ x ≤ 57 then some (x + 4)
  else if x = 43 then some 62
  else if x = 47 then some 63
  else none

/-- `base64.b64encode`. -/
def b64encode : Bytes → Bytes
  | [] => []
  | [a] =>
    let v := a.toNat * 65536
    [b64enc6 (v / 262144), b64enc6 (v / 4096 % 64), 61, 61]
  | [a, b] =>
    let v := a.toNat * 65536 + b.toNat * 256
    [b64enc6 (v / 262144), b64enc6 (v / 4096 % 64), b64enc6 (v / 64 % 64), 61]
  | a :: b :: c :: rest =>
    let v := a.toNat * 65536 + b.toNat * 256 + c.toNat
    b64enc6 (v / 262144) :: b64enc6 (v / 4096 % 64) :: b64enc6 (v / 64 % 64) :: b64enc6 (v % 64)
      :: b64encode rest

/-- Strict base64 decoder (whole groups of four, padding only in the last group). -/
def b64decode : Bytes → Option Bytes
  | [] => some []
  | c0 :: c1 :: c2 :: c3 :: rest =>
    if rest = [] ∧ c3 = 61 then
      if c2 = 61 then
        match b64dec6 c0, b64dec6 c1 with
        | some v0, some v1 => some [UInt8.ofNat ((v0 * 262144 + v1 * 4096) / 65536)]
        | _, _ => none
      else
        match b64dec6 c0, b64dec6 c1, b64dec6 c2 with
        | some v0, some v1, some v2 =>
          let v := v0 * 262144 + v1 * 4096 + v2 * 64
          some [UInt8.ofNat (v / 65536), UInt8.ofNat (v / 256)]
        | _, _, _ => none
    else
      match b64dec6 c0, b64dec6 c1, b64dec6 c2, b64dec6 c3, b64decode rest with
      | some v0, some v1, some v2, some v3, some tl =>
        let v := v0 * 262144 + v1 * 4096 + v2 * 64 + v3
        some (UInt8.ofNat (v / 65536) :: UInt8.ofNat (v / 256) :: UInt8.ofNat v :: tl)
      | _, _, _, _, _ => none
  | _ => none

/-- The `.pub` file: `base64.b64encode(blob)` followed by `get_user_info()`, i.e. the bytes
    `' ' + user + '@' + host` (passed in whole as `userAtHost`). -/
def pubFile (n e : Nat) (userAtHost : Bytes) : Bytes := b64encode (blob n e) ++ userAtHost

/-- `' ' + username + '@' + hostname`, with keygen.py's `'unknown'` fall-backs for empty names. -/
def userInfo (user host : Bytes) : Bytes :=
  [32] ++ (if user.isEmpty then ascii "unknown" else user) ++ [64]
    ++ (if host.isEmpty then ascii "unknown" else host)

end Adb.Keys
