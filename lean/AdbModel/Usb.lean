import AdbModel.Basic
import AdbModel.Generated.Constants
/-
  C20 — the USB transport (`adb_shell/transport/usb_transport.py`, class `UsbTransport`) on a scripted libusb backend.

  The backend ("libusb as python-libusb1 exposes it") is a script: the i-th call that reaches it gets the i-th result of
  the script (success with a payload / a `USBError` of some kind); every call is appended to a log.  The transport is a
  transcription of `__init__`, `connect`, `bulk_read`, `bulk_write`, `close`, `_timeout_ms` and the `usb_info` property
  (which asks the device for its serial number whenever an error message is formatted).

  Timeouts: Python passes seconds and computes `int(t * 1000)`.  The model works in MILLISECONDS: `some ms` stands for a
  `transport_timeout_s` with `t * 1000 = ms` exactly (the harness only uses such values), `none` for Python `None`.

  Finding F7 (fixed in the source tree; the model follows the repaired code): when `kernelDriverActive` or
  `detachKernelDriver` raises `USBErrorNotFound`, `connect` emits a warning and goes on to `claimInterface`
  (`except usb1.USBErrorNotFound: warnings.warn(...)`).  Before the fix the interface number was passed as the warning
  *category*, so `connect` raised `TypeError` there; the C20 unit's oracle still flags that outcome should it return.
-/
namespace Adb.Usb
open Adb

/-- the libusb error codes python-libusb1 turns into `USBError` subclasses -/
inductive ErrKind
  | io | invalidParam | access | noDevice | notFound | busy | timeout | overflow | pipe | interrupted | noMem | notSupported | other
deriving DecidableEq, Repr, Inhabited

/-- what the backend answers to one call: success (`bs` is the payload of a `bulkRead`, `n` the count returned by a
    `bulkWrite` / the truth value of `kernelDriverActive`; calls that return nothing ignore both) or a `USBError` -/
inductive Res
  | ok (bs : Bytes) (n : Nat)
  | err (k : ErrKind)
deriving DecidableEq, Repr

/-- calls that reach libusb.  `h` is the ordinal of the handle (`device.open()` number `h`) the call is made on; endpoint and
    interface arguments are passed exactly as the transport holds them (Python `None` = `none`). -/
inductive Call
  | open
  | kda (h iface : Nat)
  | detach (h iface : Nat)
  | claim (h iface : Nat)
  | release (h : Nat) (iface : Option Nat)
  | bulkRead (h : Nat) (ep : Option Nat) (n ms : Nat)
  | bulkWrite (h : Nat) (ep : Option Nat) (data : Bytes) (ms : Nat)
  | hclose (h : Nat)
  | serial
deriving DecidableEq, Repr

structure Backend where
  script : List Res := []
  log : List Call := []
  /-- number of successful `device.open()` calls so far -/
  opened : Nat := 0
deriving DecidableEq, Repr

/-- one backend call: log it, consume one script entry (an exhausted script answers "success, nothing") -/
def Backend.call (b : Backend) (c : Call) : Res × Backend :=
  match b.script with
  | [] => (.ok [] 0, { b with log := b.log ++ [c] })
  | r :: rest => (r, { b with script := rest, log := b.log ++ [c] })

/-- the libusb device/setting the transport was constructed with, and the platform -/
structure Dev where
  /-- `setting.getNumber()` -/
  iface : Nat
  /-- `endpoint.getAddress()` for `setting.iterEndpoints()`, in order -/
  eps : List Nat
  /-- `platform.system() == 'Windows'` -/
  windows : Bool := false
deriving DecidableEq, Repr

structure Handle where
  id : Nat
deriving DecidableEq, Repr

/-- `UsbTransport` attributes: `_transport`, `_interface_number`, `_read_endpoint`, `_write_endpoint`,
    `_default_transport_timeout_s` (in ms) -/
structure St where
  handle : Option Handle := none
  iface : Option Nat := none
  readEp : Option Nat := none
  writeEp : Option Nat := none
  defaultMs : Nat
deriving DecidableEq, Repr

structure World where
  cfg : Dev
  st : St
  be : Backend
deriving DecidableEq, Repr

/-- exceptions a transport method can end with -/
inductive Err
  | usbReadFailed          -- adb_shell.exceptions.UsbReadFailedError
  | usbWriteFailed         -- adb_shell.exceptions.UsbWriteFailedError
  | assertion              -- AssertionError: the setting lacks an IN or an OUT endpoint
  | usb (k : ErrKind)      -- a usb1.USBError propagating unchanged (only out of `connect`)
deriving DecidableEq, Repr

inductive Out (α : Type)
  | ok (a : α)
  | err (e : Err)
deriving DecidableEq, Repr

/-- `__init__`: `default_transport_timeout_s if default_transport_timeout_s is not None else DEFAULT_TIMEOUT_S` -/
def St.new (defaultMs? : Option Nat) : St :=
  { defaultMs := defaultMs?.getD Generated.USB_DEFAULT_TIMEOUT_MS }

def World.new (cfg : Dev) (defaultMs? : Option Nat) (script : List Res) : World :=
  { cfg := cfg, st := St.new defaultMs?, be := { script := script } }

/-- `_timeout_ms`: `int(t * 1000 if t is not None else self._default_transport_timeout_s * 1000)` -/
def timeoutMs (s : St) (t : Option Nat) : Nat :=
  match t with
  | some ms => ms
  | none => s.defaultMs

/-- `address & usb1.ENDPOINT_DIR_MASK` -/
def isIn (a : Nat) : Bool := a &&& 0x80 != 0

/-- the endpoint loop of `connect`: the last IN address and the last OUT address win -/
def scanEndpoints (eps : List Nat) : Option Nat × Option Nat :=
  eps.foldl (fun acc a => if isIn a then (some a, acc.2) else (acc.1, some a)) (none, none)

/-- `try: if platform.system() != 'Windows' and h.kernelDriverActive(i): h.detachKernelDriver(i)
     except usb1.USBErrorNotFound: warnings.warn(...)`; an error result is any other `USBError`, which propagates -/
def kernelStep (windows : Bool) (h i : Nat) (b : Backend) : Option ErrKind × Backend :=
  if windows then (none, b) else
  let (r, b1) := b.call (.kda h i)
  match r with
  | .err .notFound => (none, b1)
  | .err k => (some k, b1)
  | .ok _ n =>
    if n = 0 then (none, b1) else
    let (r2, b2) := b1.call (.detach h i)
    match r2 with
    | .err .notFound => (none, b2)
    | .err k => (some k, b2)
    | .ok _ _ => (none, b2)

/-- `connect` (its `transport_timeout_s` argument is not used by the code) -/
def connect (w : World) : Out Unit × World :=
  match scanEndpoints w.cfg.eps with
  | (none, _) => (.err .assertion, w)
  | (some _, none) => (.err .assertion, w)
  | (some r, some wr) =>
    let (ro, b1) := w.be.call .open
    match ro with
    | .err k => (.err (.usb k), { w with be := b1 })
    | .ok _ _ =>
      let h := b1.opened + 1
      let b1 := { b1 with opened := h }
      let i := w.cfg.iface
      match kernelStep w.cfg.windows h i b1 with
      | (some k, b2) => (.err (.usb k), { w with be := b2 })
      | (none, b2) =>
        -- the attributes are assigned BEFORE claimInterface is called
        let st' : St := { w.st with handle := some ⟨h⟩, readEp := some r, writeEp := some wr, iface := some i }
        let (rc, b3) := b2.call (.claim h i)
        match rc with
        | .err k => (.err (.usb k), { w with st := st', be := b3 })
        | .ok _ _ => (.ok (), { w with st := st', be := b3 })

/-- evaluating `self.usb_info` for a message: `device.getSerialNumber()`, a `USBError` there is swallowed -/
def usbInfo (b : Backend) : Backend := (b.call .serial).2

/-- `bulk_read(numbytes, transport_timeout_s)` -/
def bulkRead (w : World) (n : Nat) (t : Option Nat) : Out Bytes × World :=
  match w.st.handle with
  | none => (.err .usbReadFailed, w)
  | some h =>
    let (r, b1) := w.be.call (.bulkRead h.id w.st.readEp n (timeoutMs w.st t))
    match r with
    | .ok bs _ => (.ok bs, { w with be := b1 })
    | .err _ => (.err .usbReadFailed, { w with be := usbInfo b1 })

/-- `bulk_write(data, transport_timeout_s)`: the backend's count is returned as it is -/
def bulkWrite (w : World) (data : Bytes) (t : Option Nat) : Out Nat × World :=
  match w.st.handle with
  | none => (.err .usbWriteFailed, w)
  | some h =>
    let (r, b1) := w.be.call (.bulkWrite h.id w.st.writeEp data (timeoutMs w.st t))
    match r with
    | .ok _ k => (.ok k, { w with be := b1 })
    | .err _ => (.err .usbWriteFailed, { w with be := usbInfo b1 })

/-- `close`: `releaseInterface`, `handle.close()`; a `USBError` from either is logged (with `usb_info`) and swallowed — after
    a failing `releaseInterface` the handle's `close()` is skipped; the handle is forgotten in every case -/
def close (w : World) : World :=
  match w.st.handle with
  | none => w
  | some h =>
    let (r, b1) := w.be.call (.release h.id w.st.iface)
    let b' := match r with
      | .err _ => usbInfo b1
      | .ok _ _ =>
        let (r2, b2) := b1.call (.hclose h.id)
        match r2 with
        | .err _ => usbInfo b2
        | .ok _ _ => b2
    { w with st := { w.st with handle := none }, be := b' }

/-! ### operation sequences (used by the theorems about whole runs and by the driver) -/

inductive Op
  | connect
  | read (n : Nat) (t : Option Nat)
  | write (data : Bytes) (t : Option Nat)
  | close
deriving DecidableEq, Repr

def step (w : World) : Op → World
  | .connect => (connect w).2
  | .read n t => (bulkRead w n t).2
  | .write d t => (bulkWrite w d t).2
  | .close => close w

def run (w : World) (ops : List Op) : World := ops.foldl step w

/-- a list of `bulk_read(n, t)` calls, results in order -/
def readMany (w : World) : List (Nat × Option Nat) → List (Out Bytes) × World
  | [] => ([], w)
  | (n, t) :: rest =>
    let (r, w1) := bulkRead w n t
    let (rs, w2) := readMany w1 rest
    (r :: rs, w2)

/-- the payloads of the successful reads, concatenated -/
def okBytes : List (Out Bytes) → Bytes
  | [] => []
  | .ok bs :: rest => bs ++ okBytes rest
  | .err _ :: rest => okBytes rest

/-- "Conforming backend" for a run of reads of sizes `ns` against a device whose IN stream is `stream`: every successful
    `bulkRead` answer is at most the requested size and is the next bytes of the stream; an error consumes nothing of the
    stream (and costs the script one more entry: the failed call's message asks the device for its serial number); an
    exhausted script answers `b""`. -/
def Conforming : List Nat → Bytes → List Res → Prop
  | [], _, _ => True
  | n :: ns, stream, script =>
    match script with
    | [] => Conforming ns stream []
    | .ok bs _ :: rest => bs.length ≤ n ∧ bs <+: stream ∧ Conforming ns (stream.drop bs.length) rest
    | .err _ :: rest => Conforming ns stream (rest.drop 1)

end Adb.Usb
