import AdbModel.Cmd
/-
  adb_message.py: `checksum`, `unpack`, `AdbMessage.__init__/pack`.
-/
namespace Adb

/-- `checksum(data)`: `sum(data) & 0xFFFFFFFF` -/
def checksum (data : Bytes) : Nat := byteSum data % 4294967296

/-- An `AdbMessage` as constructed by the library (command id, arg0, arg1, payload). -/
structure Msg where
  cmd  : Cmd
  arg0 : Nat
  arg1 : Nat
  data : Bytes := []
  deriving DecidableEq, Repr, Inhabited

/-- `self.magic = self.command ^ 0xFFFFFFFF` -/
def magicOf (wire : Nat) : Nat := wire ^^^ 4294967295

/-- What `struct.pack('<6I', …)` accepts: every field in `[0, 2^32)`. Python raises `struct.error`
    otherwise; `pack?` returns `none` there. -/
def Msg.Packable (m : Msg) : Prop :=
  m.arg0 < 4294967296 ∧ m.arg1 < 4294967296 ∧ m.data.length < 4294967296

instance (m : Msg) : Decidable m.Packable := by unfold Msg.Packable; infer_instance

/-- `AdbMessage.pack()`: the 24-byte header. -/
def Msg.packHdr (m : Msg) : Bytes :=
  le32 m.cmd.wire ++ le32 m.arg0 ++ le32 m.arg1 ++ le32 m.data.length ++ le32 (checksum m.data)
    ++ le32 (magicOf m.cmd.wire)

def Msg.pack? (m : Msg) : Option Bytes := if m.Packable then some m.packHdr else none

/-- header followed by payload: what `_send` hands to the transport -/
def Msg.encode (m : Msg) : Bytes := m.packHdr ++ m.data

/-- The five values `unpack(message)` returns (the magic is read and discarded). `none` when the
    message is not exactly `MESSAGE_SIZE` bytes (`struct.error` → `ValueError`). -/
structure Hdr where
  cmd : Nat
  arg0 : Nat
  arg1 : Nat
  len : Nat
  sum : Nat
  deriving DecidableEq, Repr, Inhabited

def unpack (bs : Bytes) : Option Hdr :=
  match rd32 bs with
  | none => none
  | some (c, r1) => match rd32 r1 with
    | none => none
    | some (a0, r2) => match rd32 r2 with
      | none => none
      | some (a1, r3) => match rd32 r3 with
        | none => none
        | some (len, r4) => match rd32 r4 with
          | none => none
          | some (sum, r5) => match rd32 r5 with
            | none => none
            | some (_magic, r6) => if r6.isEmpty then some ⟨c, a0, a1, len, sum⟩ else none

/-- magic word of a raw header, for the well-formedness parser -/
def unpackMagic (bs : Bytes) : Option Nat :=
  match rd32 (bs.drop 20) with
  | some (m, _) => some m
  | none => none

/-- A packet as received / as a well-formed emitted message. -/
structure Pkt where
  cmd  : Cmd
  arg0 : Nat
  arg1 : Nat
  data : Bytes
  deriving DecidableEq, Repr, Inhabited

def Pkt.toMsg (p : Pkt) : Msg := ⟨p.cmd, p.arg0, p.arg1, p.data⟩
def Pkt.encode (p : Pkt) : Bytes := p.toMsg.encode

/-- Strict parser used as the C02 oracle on the bytes the peer received: splits a byte stream into
    messages, requiring a known command, magic = complement, announced length available and the
    checksum to match. Returns the parsed packets and the unparsed rest. Fuel = stream length. -/
def parseStrictAux : Nat → Bytes → List Pkt → (List Pkt × Bytes)
  | 0, bs, acc => (acc.reverse, bs)
  | fuel + 1, bs, acc =>
    let hdr := bs.take 24
    if hdr.length < 24 then (acc.reverse, bs) else
    match unpack hdr, unpackMagic hdr with
    | some h, some mg =>
      match Cmd.ofWire? h.cmd with
      | none => (acc.reverse, bs)
      | some c =>
        let body := bs.drop 24
        let data := body.take h.len
        if mg ≠ magicOf h.cmd then (acc.reverse, bs)
        else if data.length < h.len then (acc.reverse, bs)
        else if checksum data ≠ h.sum then (acc.reverse, bs)
        else parseStrictAux fuel (body.drop h.len) (⟨c, h.arg0, h.arg1, data⟩ :: acc)
    | _, _ => (acc.reverse, bs)

def parseStrict (bs : Bytes) : List Pkt × Bytes := parseStrictAux (bs.length / 24 + 1) bs []

end Adb
