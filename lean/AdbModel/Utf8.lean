import AdbModel.Basic
/-
  `bytes.decode('utf8', 'backslashreplace')` as CPython implements it: at each position, if a
  well-formed UTF-8 sequence (RFC 3629: shortest form, no surrogates, ≤ U+10FFFF) starts there, emit
  its code point; otherwise emit the four characters `\xNN` for that one byte and advance by one.
-/
namespace Adb
namespace Utf8

def isCont (b : UInt8) : Bool := 0x80 ≤ b && b ≤ 0xBF

def inRange (lo hi b : UInt8) : Bool := lo ≤ b && b ≤ hi

/-- a well-formed sequence at the head: `(code point, length)` -/
def decodeStep : Bytes → Option (Nat × Nat)
  | [] => none
  | b0 :: rest =>
    if b0 < 0x80 then some (b0.toNat, 1)
    else if inRange 0xC2 0xDF b0 then
      match rest with
      | b1 :: _ => if isCont b1 then some ((b0.toNat % 32) * 64 + b1.toNat % 64, 2) else none
      | _ => none
    else if inRange 0xE0 0xEF b0 then
      match rest with
      | b1 :: b2 :: _ =>
        let ok1 := if b0 == 0xE0 then inRange 0xA0 0xBF b1 else if b0 == 0xED then inRange 0x80 0x9F b1 else isCont b1
        if ok1 && isCont b2 then some ((b0.toNat % 16) * 4096 + (b1.toNat % 64) * 64 + b2.toNat % 64, 3) else none
      | _ => none
    else if inRange 0xF0 0xF4 b0 then
      match rest with
      | b1 :: b2 :: b3 :: _ =>
        let ok1 := if b0 == 0xF0 then inRange 0x90 0xBF b1 else if b0 == 0xF4 then inRange 0x80 0x8F b1 else isCont b1
        if ok1 && isCont b2 && isCont b3 then
          some ((b0.toNat % 8) * 262144 + (b1.toNat % 64) * 4096 + (b2.toNat % 64) * 64 + b3.toNat % 64, 4)
        else none
      | _ => none
    else none

def hexDigitLower (n : Nat) : Nat := if n < 10 then 48 + n else 87 + n

/-- the four code points of `\xNN` -/
def escape (b : UInt8) : List Nat := [92, 120, hexDigitLower (b.toNat / 16), hexDigitLower (b.toNat % 16)]

/-- code points of `bs.decode('utf8', 'backslashreplace')`; fuel = length (each step consumes ≥ 1 byte) -/
def decodeAux : Nat → Bytes → List Nat
  | 0, _ => []
  | _ + 1, [] => []
  | fuel + 1, b :: rest =>
    match decodeStep (b :: rest) with
    | some (cp, len) => cp :: decodeAux fuel ((b :: rest).drop len)
    | none => escape b ++ decodeAux fuel rest

def decodeBS (bs : Bytes) : List Nat := decodeAux bs.length bs

/-- `str.encode('utf8')` of one code point (scalar values only) -/
def encodeCp (c : Nat) : Bytes :=
  if c < 0x80 then [UInt8.ofNat c]
  else if c < 0x800 then [UInt8.ofNat (0xC0 + c / 64), UInt8.ofNat (0x80 + c % 64)]
  else if c < 0x10000 then [UInt8.ofNat (0xE0 + c / 4096), UInt8.ofNat (0x80 + c / 64 % 64), UInt8.ofNat (0x80 + c % 64)]
  else [UInt8.ofNat (0xF0 + c / 262144), UInt8.ofNat (0x80 + c / 4096 % 64), UInt8.ofNat (0x80 + c / 64 % 64), UInt8.ofNat (0x80 + c % 64)]

def encode (cps : List Nat) : Bytes := (cps.map encodeCp).flatten

/-- a Unicode scalar value -/
def IsScalar (c : Nat) : Prop := c < 0xD800 ∨ (0xE000 ≤ c ∧ c < 0x110000)

end Utf8
end Adb
