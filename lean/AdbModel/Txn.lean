import AdbModel.World
/- hidden_helpers._AdbTransactionInfo and _FileSyncTransactionInfo -/
namespace Adb

structure Txn where
  localId : Option Nat
  remoteId : Option Nat
  tt : Timeout        -- transport_timeout_s
  rt : Timeout        -- read_timeout_s
  total : Timeout     -- timeout_s
  deriving Repr, Inhabited, DecidableEq

/-- Python `min(a, b)`: comparing with `None` raises TypeError -/
def pyMin (a b : Timeout) : Except Err Timeout :=
  match a, b with
  | some x, some y => .ok (some (min x y))
  | _, _ => .error .pyTypeError

/-- `_AdbTransactionInfo.__init__` -/
def Txn.make (l r : Option Nat) (tt rt total : Timeout) : Except Err Txn := do
  let rt' ← if total = none then pure rt else pyMin rt total
  let tt' ← if tt = none then pure rt' else pyMin tt rt'
  pure ⟨l, r, tt', rt', total⟩

/-- `args_match(arg0, arg1, allow_zeros)` -/
def Txn.argsMatch (t : Txn) (a0 a1 : Nat) (allowZeros : Bool) : Bool :=
  if !allowZeros then
    (t.localId == some a1) && (t.remoteId.isNone || t.remoteId == some a0)
  else
    (a1 == 0 || t.localId == some a1) && (t.remoteId.isNone || a0 == 0 || t.remoteId == some a0)

/-- the four receive formats -/
inductive SyncFmt where
  | list   -- '<5I'
  | pull   -- '<2I'
  | push   -- '<2I'
  | stat   -- '<4I'
  deriving DecidableEq, Repr, Inhabited

def SyncFmt.size : SyncFmt → Nat
  | .list => Generated.FILESYNC_LIST_FORMAT_SIZE
  | .pull => Generated.FILESYNC_PULL_FORMAT_SIZE
  | .push => Generated.FILESYNC_PUSH_FORMAT_SIZE
  | .stat => Generated.FILESYNC_STAT_FORMAT_SIZE

/-- `_FileSyncTransactionInfo`; `sendBuf` is the live prefix `send_buffer[:send_idx]` -/
structure FsInfo where
  fmt : SyncFmt
  maxdata : Nat
  sendBuf : Bytes := []
  recvBuf : Bytes := []
  deriving Repr, Inhabited

/-- `can_add_to_send_buffer(data_len)` -/
def FsInfo.canAdd (fi : FsInfo) (dataLen : Nat) : Bool :=
  decide (fi.sendBuf.length + (fi.fmt.size + dataLen) < fi.maxdata)

end Adb
