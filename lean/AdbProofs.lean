import AdbProofs.Lemmas.Bytes
import AdbProofs.Properties.C02
import AdbProofs.Properties.C19
import AdbProofs.Properties.C12
import AdbProofs.Properties.C13
