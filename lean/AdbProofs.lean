import AdbProofs.Lemmas.Bytes
import AdbProofs.Properties.C02
