import AdbModel.Basic
import AdbModel.Cmd
import AdbModel.Message
import AdbModel.Store
import AdbModel.StoreSpec
