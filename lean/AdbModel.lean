import AdbModel.Basic
import AdbModel.Cmd
import AdbModel.Message
import AdbModel.Store
